"""Thin adapter onto the real pyanalyze in $VERIF_REPO (default /repo)."""
from __future__ import annotations

import ast
import contextlib
import io
import linecache
import os
import re
import sys

REPO = os.environ.get("VERIF_REPO", "/repo")
if sys.path[0] != REPO:
    sys.path.insert(0, REPO)

import pyanalyze  # noqa: E402

assert os.path.abspath(pyanalyze.__file__).startswith(os.path.abspath(REPO) + os.sep), (
    "pyanalyze imported from %s, expected under %s" % (pyanalyze.__file__, REPO)
)

from pyanalyze import extensions as _ext  # noqa: E402
from pyanalyze.analysis_lib import make_module  # noqa: E402
from pyanalyze.checker import Checker  # noqa: E402
from pyanalyze.error_code import DISABLED_IN_TESTS, ErrorCode  # noqa: E402
from pyanalyze.name_check_visitor import ClassAttributeChecker, NameCheckVisitor  # noqa: E402
from pyanalyze.node_visitor import BaseNodeVisitor  # noqa: E402
from pyanalyze.options import ConfigOption, Options  # noqa: E402
from pyanalyze.stacked_scopes import VisitorState  # noqa: E402

_ext.patch_typing_overload()

_CHECKERS = {}


def make_checker(settings=None, extra=()):
    """settings: {ErrorCode: bool} overriding the test defaults; extra: option instances."""
    s = {c: c not in DISABLED_IN_TESTS for c in ErrorCode}
    if settings:
        s.update(settings)
    inst = [ConfigOption.registry[c.name](v, from_command_line=True) for c, v in s.items()]
    inst.extend(extra)
    return Checker(raw_options=Options.from_option_list(inst))


def get_checker(key="default", settings=None, extra=()):
    if key not in _CHECKERS:
        _CHECKERS[key] = make_checker(settings, extra)
    return _CHECKERS[key]


class Rec(NameCheckVisitor):
    """Records every value returned for every expression node in the checking phase."""

    def visit(self, node):
        ret = super().visit(node)
        if self.state is VisitorState.check_names and isinstance(node, ast.expr):
            node.__dict__.setdefault("_inf", []).append(ret)
        return ret

    def composite_from_node(self, node):
        c = super().composite_from_node(node)
        if self.state is VisitorState.check_names and isinstance(node, ast.expr):
            node.__dict__.setdefault("_inf", []).append(c.value)
        return c


def test_module_factory():
    """the module factory of pyanalyze's own tests: it puts assert_is_value, KnownValue, ... into the namespace of the checked module"""
    from pyanalyze.test_name_check_visitor import _make_module
    return _make_module


def cleanup_module(mod):
    name = mod.__name__
    sys.modules.pop(name, None)
    linecache.cache.pop(getattr(mod, "__file__", None) or "", None)
    BaseNodeVisitor._changes_for_fixer.clear()
    for reg in (getattr(_ext, "_overloads", None), getattr(_ext, "_type_evaluations", None)):
        if reg:
            for k in [k for k in reg if isinstance(k, str) and k.startswith(name + ".")]:
                del reg[k]


def check(code, checker=None, visitor_cls=NameCheckVisitor, keep_module=False, want_tree=False, want_module=False, module_factory=None, **kw):
    """Run the real visitor over a source string.  Returns the list of failure dicts
    (or (failures, tree) when want_tree).  Raises whatever pyanalyze raises."""
    if checker is None:
        checker = get_checker()
    tree = ast.parse(code)
    mod = (module_factory or make_module)(code)
    try:
        with contextlib.redirect_stderr(io.StringIO()), contextlib.redirect_stdout(io.StringIO()):
            with ClassAttributeChecker(enabled=True, options=checker.options) as ac:
                v = visitor_cls(mod.__name__, code, tree, module=mod, attribute_checker=ac, checker=checker, **kw)
                res = v.check()
    finally:
        if not keep_module and not want_module:
            cleanup_module(mod)
    if want_module:
        return res, tree, mod      # caller must call cleanup_module(mod)
    if want_tree:
        return res, tree
    return res


_MODTOK = re.compile(r"<test input [0-9a-f]+>|_?test_?input_?[0-9a-f]{8,}|[0-9a-f]{32}")
_ADDR = re.compile(r"0x[0-9a-fA-F]+")


def norm_text(s):
    s = _MODTOK.sub("<mod>", s)
    s = _ADDR.sub("0xADDR", s)
    return s


def diag(f):
    """Canonical (code, line, col, message) of a failure dict."""
    code = f["code"].name if f.get("code") is not None else None
    return (code, f.get("lineno"), f.get("col_offset"), norm_text(f.get("description", "")))


def diags_by_line(failures, codes=None):
    out = {}
    for f in failures:
        c = f["code"].name if f.get("code") is not None else None
        if codes is not None and c not in codes:
            continue
        out.setdefault(f.get("lineno"), []).append(c)
    return out


def node_key(n):
    return (n.lineno, n.col_offset, n.end_lineno, n.end_col_offset, type(n).__name__)


def inferred_map(tree):
    inf = {}
    for n in ast.walk(tree):
        if hasattr(n, "_inf"):
            inf[node_key(n)] = n._inf
    return inf
