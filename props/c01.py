"""C01 — inferred values are sound with respect to execution (kind E + environment enumeration)."""
import ast
import copy
import itertools
import re

from mc.core import UnitResult
from ref import universe as U

ID = "C01"
PARTS = ['sound']      # outcome classes every run must produce (guards against a part of the exploration silently not running)
RULE = ("state = (program, argument, environment answers): programs = one annotated function assembled from statement templates x expression templates x parameter "
        "types (every combination up to the construct bound); every universe object of the declared parameter type is passed; opaque conditions / raising calls are "
        "answered by an environment whose answer sequences are all enumerated; oracle: the function is executed under CPython with every evaluated "
        "Name/Subscript/Call/BinOp/IfExp load node recorded, and each recorded runtime value must belong (in_value) to a value the real visitor inferred for that node; "
        "a node never visited in the checking phase or inferred Never must not be reached")
ASSUMPTIONS = ["in_value() membership reader (ref/invalue.py); CPython execution is the ground truth", "no container is mutated through an alias (the grammar has no mutation)",
               "within one execution only the first failing observation is classified (later ones are usually consequences)"]
MAXTASKS = 10

HELPERS = '''
T = TypeVar("T")
_ENV: list = []
def _env_next() -> bool:
    return _ENV.pop(0) if _ENV else False
def use(a: object) -> None: pass
def c() -> bool:
    return _env_next()
def boom() -> None:
    if _env_next():
        raise ValueError("boom")
def ident(a: T) -> T: return a
def first(xs: list[T]) -> T: return xs[0]
def pair(a: int, b: str) -> tuple[int, str]: return (a, b)
def opt(a: int) -> int | None: return a if a else None
class Mid:
    def __init__(self, v: object) -> None:
        self.v = v
class Top:
    def __init__(self, b: Mid) -> None:
        self.b = b
        self.d = {"k": b}
class LeafO:
    v: Optional[int] = None
class MidO:
    v: Optional[int] = None
    leaf: LeafO
    def __init__(self, v: Optional[int] = None) -> None:
        self.v = v
        self.leaf = LeafO()
        self.leaf.v = v
class TopO:
    b: MidO
    def __init__(self, b: MidO) -> None:
        self.b = b
class CmPlain:
    def __enter__(self) -> int:
        return 0
    def __exit__(self, *a: object) -> None:
        return None
class CmSup:
    def __enter__(self) -> int:
        return 0
    def __exit__(self, *a: object) -> bool:
        return True
# unannotated helpers whose return value is inferred from their bodies; each of them can fall off its end
def hg1(cc):
    if cc:
        return 1
def hg2(cc):
    for q in cc:
        return q
def hg3(cc):
    while cc:
        return 'a'
def hg4(cc):
    try:
        return cc[0]
    except Exception:
        pass
def hg5(cc):
    if cc:
        return cc
    elif cc is None:
        return
    else:
        raise ValueError
'''
PRELUDE = U.PRELUDE + HELPERS
NPRE = PRELUDE.count("\n")

PTYPES = ["int", "str", "bool", "Literal[0, False]", "tuple[()]", "float", "int | None", "int | str", "tuple[int, str]", "tuple[int, ...]", "list[int]", "dict[str, int]", "Literal[1, 2]", "E", "A",
          "tuple[int, str, float]", "str | None", "list[str] | None", "tuple[int, ...] | None", "A | None", "IE", "bytes", "float | str", "tuple[()] | tuple[int]",
          "Sequence[int]", "type[A]", "NT"]
EXPRS = ["x", "x[0]", "x[1]", "x[-1]", "x[-2]", "x[1:]", "x[:1]", "len(x)", "x + 1", "(x, 1)", "[x]", "x if x else None", "x and 1", "x or 'z'", "not x", "x == 1",
         "ident(x)", "first([x])", "{'k': x}['k']", "x is None", "isinstance(x, int)", "(x, x)[1]", "[x][0]", "pair(1, 'a')[0]", "opt(1)", "x * 2", "-x", "x[0] if x else x",
         "ident((x, 1))[0]", "[x, None][1]", "(x, 'a', None)[-1]", "(1, x)[-2]", "{1: x}.get(1)", "str(x)", "x.real", "(x,) + (1,)", "[x] * 2", "x[::2]", "max(x, x)", "dict(k=x)['k']"]
EXPRS_SMALL = ["x", "x[0]", "x[-1]", "len(x)", "x if x else None", "ident(x)", "(x, 1)", "[x]", "x or 'z'", "opt(1)"]
S1 = [
    "v = {e}",
    "v = {e}\n    w = v\n    use(w)",
    "if {e}:\n        v = x\n    else:\n        v = None",
    "for v in ({e},):\n        pass",
    "try:\n        boom()\n        v = {e}\n    except Exception:\n        v = 0",
    "v, *w = ({e}, 1)\n    use(w)",
    "if isinstance(x, str):\n        v = x\n    else:\n        v = {e}",
    "while True:\n        v = {e}\n        break",
    "match x:\n        case int():\n            v = {e}\n        case _:\n            v = x",
    "v = None\n    while c():\n        v = {e}",
    "v = None\n    for _i in range(2):\n        if c():\n            continue\n        v = {e}\n    else:\n        use(v)",
    "try:\n        v = {e}\n    finally:\n        use(x)",
    "v = [{e} for _k in (1, 2)]",
    "v = {e}\n    if v is None:\n        use(v)\n    elif v:\n        use(v)\n    else:\n        use(v)",
    "a, b = ({e}, x)\n    v = (b, a)",
    "match {e}:\n        case [a, *r]:\n            v = (a, r)\n        case {{'k': w}}:\n            v = w\n        case str() as s:\n            v = s\n        case _:\n            v = None",
    "if x is None or isinstance(x, str):\n        v = x\n    else:\n        v = {e}",
    "v = 0\n    if c() and (w := {e}):\n        v = w",
    "v = None\n    try:\n        boom()\n        v = {e}\n        boom()\n    except ValueError:\n        use(v)\n    else:\n        use(v)\n    finally:\n        use(v)",
    "v = x\n    for w in ({e}, None, 1):\n        if w is None:\n            break\n        v = w",
    "d = {{'k': {e}}}\n    v = d['k']",
    "v = ({e}, x)\n    v = v[0]",
    "v = None\n    for w in x:\n        v = {e}",
    "v = None\n    for w in range(len(x)):\n        v = {e}",
    "v = 0\n    for w in ():\n        v = {e}",
    "v = 0\n    for w in (1, 2):\n        v = {e}\n    else:\n        use(v)",
    "v = 0\n    while True:\n        try:\n            v = {e}\n            break\n        finally:\n            use(x)",
    "v = 0\n    while c():\n        try:\n            boom()\n            v = {e}\n            continue\n        except ValueError:\n            break\n    else:\n        use(v)",
    "match x:\n        case int():\n            v = 1\n        case str():\n            v = {e}\n        case _:\n            v = None",
    "v = 0 if c() else False\n    if v is not False:\n        v = ({e}, v)",
    "v = x\n    if v is not None and v is not True:\n        v = ({e}, v)",
    "if 1 < len(x):\n        v = x\n    else:\n        v = {e}",
    "v = 0\n    with open('/dev/null') as fh:\n        v = {e}",
    "def inner() -> object:\n        return {e}\n    v = inner()",
    "v = lambda: {e}\n    v = v()",
    # conditions stored in a variable, with the tested variable reassigned on some paths only before the stored condition is used
    "ok = isinstance(x, int)\n    if c():\n        x = {e}\n    if ok:\n        v = x\n    else:\n        v = None",
    "ok = x is not None\n    if c():\n        x = None\n    v = {e}\n    if ok:\n        v = x",
    "ok = not x\n    v = {e}\n    while c():\n        x = v\n    if ok:\n        v = (x, 0)\n    else:\n        v = (x, 1)",
    # sequence patterns with a star at each position against parameters of known length; guarded cases
    "match x:\n        case [a, b, *r]:\n            v = (a, r)\n        case [a, *r]:\n            v = (a, r, {e})\n        case _:\n            v = {e}",
    "match x:\n        case [*r, a]:\n            v = (r, a)\n        case _:\n            v = {e}",
    "match x:\n        case [a, *r, b]:\n            v = (a, r, b)\n        case [*r]:\n            v = r\n        case _:\n            v = {e}",
    "match x:\n        case None if c():\n            v = 0\n        case int() if c():\n            v = 1\n        case _:\n            v = x",
    "match {e}:\n        case int() | str() if c():\n            v = 0\n        case _:\n            v = x",
    # loop else clauses that read a variable assigned in the loop body
    "v = 0\n    while c():\n        v = {e}\n    else:\n        use(v)",
    "v = 0\n    while c():\n        v = {e}\n        if c():\n            break\n    else:\n        use(v)\n    use(v)",
    "v = 0\n    for w in x:\n        v = {e}\n    else:\n        use(v)",
    # calls of unannotated helpers that can fall off their end (implicit return None)
    "v = hg1({e})",
    "v = (hg2(({e},) if c() else ()), hg3(c()))",
    "v = hg4(x)\n    w = hg5({e})\n    use(w)",
    # star targets whose source contains an unpacking itself, with several names before and after the star
    "p, q, *r, s, u = (1.5, *x, {e}, b'y')\n    v = (p, q, r, s, u)",
    "[p, *r, s, u] = [*x, {e}, None, 'z']\n    v = (p, r, s, u)",
    "p, *r, s = (*x, *x, {e})\n    v = (p, r, s)",
    # narrowing of an attribute / subscript chain, then rebinding of a prefix of the chain, then a new read
    "t = Top(Mid({e}))\n    v = 0\n    if t.b.v is not None:\n        t.b = Mid(None)\n        v = t.b.v\n    use(v)",
    "t = Top(Mid({e}))\n    v = 0\n    if isinstance(t.b.v, int):\n        if c():\n            t.b = Mid('s')\n        v = t.b.v",
    "t = Top(Mid({e}))\n    v = 0\n    if t.d['k'].v is not None:\n        t.d = {{'k': Mid(None)}}\n        v = t.d['k'].v\n    use(v)",
    "t = Top(Mid({e}))\n    v = 0\n    if t.b.v is not None:\n        t = Top(Mid(None))\n        v = t.b.v",
    # the same with declared Optional attributes (the narrowing is visible as int) on a chain of two and of three steps
    "t = TopO(MidO(1 if c() else None))\n    w = {e}\n    v = 0\n    if t.b.v is not None:\n        t.b = MidO(None)\n        v = t.b.v\n    use(v)",
    "t = TopO(MidO(1 if c() else None))\n    w = {e}\n    v = 0\n    if t.b.leaf.v is not None:\n        t.b.leaf = LeafO()\n        v = t.b.leaf.v\n    use(v)",
    "t = TopO(MidO(1 if c() else None))\n    w = {e}\n    v = 0\n    if t.b.leaf.v is not None:\n        t.b = MidO(None)\n        v = t.b.leaf.v\n    use(v)",
    # a loop with break inside a try body, between an assignment and a call that may raise
    "v = 0\n    try:\n        v = {e}\n        for w in (1, 2):\n            if c():\n                break\n        boom()\n    except ValueError:\n        use(v)",
    "v = 0\n    try:\n        v = {e}\n        while c():\n            if c():\n                continue\n            break\n        boom()\n    except ValueError:\n        use(v)\n    use(v)",
    # with statements with several items: the exception-suppressing manager first, last, alone, nested
    "v = 0\n    with CmPlain(), CmSup():\n        v = {e}\n        boom()\n        v = 'done'\n    use(v)",
    "v = 0\n    with CmSup(), CmPlain():\n        v = {e}\n        boom()\n        v = 'done'\n    use(v)",
    "v = 0\n    with CmPlain() as p, CmPlain(), CmSup() as q:\n        v = {e}\n        boom()\n        v = (p, q)\n    use(v)",
    "v = 0\n    with CmPlain():\n        with CmSup():\n            v = {e}\n            boom()\n            v = 'done'\n        w = v\n    use(v)",
    # in-place mutation of list / set / dict displays and counters in loops
    "v = [1]\n    v += [{e}]\n    use(v)",
    "v = [x, 1]\n    v.pop()\n    w = v[-1]\n    use(v)",
    "v = {{1, 2}}\n    v.discard(1)\n    v.add({e})\n    use(v)",
    "v = [1, 'a']\n    v.reverse()\n    w = v[0]\n    use(w)",
    "v = 0\n    for w in (1, 2, 3):\n        v += 1\n    use(v)",
    "v = 0\n    w = ''\n    while c():\n        v += 1\n        w = w + 'a'\n    use((v, w))",
    "d = {{'k': {e}}}\n    d['k'] = 0\n    d.update(j=1)\n    v = (d['k'], d)",
    "v = [{e}, 0]\n    v[0] = 'z'\n    v.insert(0, None)\n    w = v[0]\n    use(v)",
    # nested loops and try statements: break / continue in inner loops, in finally, in handlers; a try nested in a finally body
    "v = 0\n    for w in (1, 2):\n        for u in (1, 2):\n            if c():\n                break\n            v = {e}\n        use(v)\n    use(v)",
    "v = 0\n    while c():\n        try:\n            v = {e}\n        finally:\n            if c():\n                break\n            v = 'f'\n    use(v)",
    "v = 0\n    for w in (1, 2):\n        try:\n            boom()\n        except ValueError:\n            v = {e}\n            continue\n        finally:\n            use(v)\n        v = 'g'\n    use(v)",
    "v = 0\n    try:\n        boom()\n    finally:\n        try:\n            boom()\n            v = {e}\n        except ValueError:\n            v = 'h'\n    use(v)",
    "v = 0\n    for w in (1, 2):\n        while c():\n            v = {e}\n            if c():\n                continue\n            break\n        else:\n            v = 'e'\n    use(v)",
]
S2 = [
    "w = v\n    use(w)",
    "if v:\n        w = v\n    else:\n        w = None\n    use(w)",
    "if isinstance(v, int):\n        use(v)\n    else:\n        use(v)",
    "if v is None:\n        use(v)\n    else:\n        use(v)",
    "match v:\n        case int():\n            use(v)\n        case str():\n            use(v)\n        case _:\n            use(v)",
    "for w in (v, 1):\n        use(w)",
    "try:\n        boom()\n        w = v\n    except Exception:\n        w = None\n    use(w)",
    "if isinstance(v, (tuple, list)):\n        use(v[0] if v else v)\n    else:\n        use(v)",
    "w = v if c() else x\n    use(w)",
    "if v == 1:\n        use(v)\n    elif v in ('a', None):\n        use(v)\n    else:\n        use(v)",
    "while c():\n        v = (v,)\n    use(v)",
    "if v is not False:\n        use(v)\n    else:\n        use(v)",
    "if v is not True and v is not None:\n        use(v)\n    else:\n        use(v)",
    "for w in ():\n        v = w\n    use(v)",
    "if isinstance(v, (bool, str)):\n        use(v)\n    else:\n        use(v)",
]


def programs(tier):
    """(ptype, source of run()) in simplest-first order."""
    out = []
    for pt, e, (si, s) in itertools.product(PTYPES, EXPRS, list(enumerate(S1))):
        out.append((pt, "def run(x: %s) -> object:\n    %s\n    return v\n" % (pt, s.format(e=e)), "%d" % si))
    # two-construct programs: quick = 14 types x 10 expressions x 12 x 15 templates; thorough = 18 types x 10 expressions x all 35 x 15 templates
    exprs2 = EXPRS_SMALL
    s1_2 = S1[:12] if tier == "quick" else S1
    pts = PTYPES[:14] if tier == "quick" else PTYPES[:18]
    for pt, e, (si, s), (ti, t) in itertools.product(pts, exprs2, list(enumerate(s1_2)), list(enumerate(S2))):
        out.append((pt, "def run(x: %s) -> object:\n    %s\n    %s\n    return v\n" % (pt, s.format(e=e), t), "%d+%d" % (si, ti)))
    return out


CHUNK = 150


def bounds(tier):
    return {"programs": len(programs(tier)), "parameter_types": len(PTYPES), "expressions": len(EXPRS), "statement_templates": len(S1), "follow_up_templates": len(S2),
            "max_env_answers": 4, "constructs": 2}


def units(tier):
    n = len(programs(tier))
    return [(tier, i, min(n, i + CHUNK)) for i in range(0, n, CHUNK)]


class _Instr(ast.NodeTransformer):
    def generic_visit(self, node):
        node = super().generic_visit(node)
        if isinstance(node, (ast.Name, ast.Subscript, ast.Call, ast.BinOp, ast.IfExp)) and isinstance(getattr(node, "ctx", ast.Load()), ast.Load):
            if isinstance(node, ast.Name) and node.id in ("__rec",):
                return node
            key = (node.lineno, node.col_offset, node.end_lineno, node.end_col_offset, type(node).__name__)
            return ast.copy_location(ast.Call(func=ast.Name(id="__rec", ctx=ast.Load()), args=[ast.Constant(key), node], keywords=[]), node)
        return node

    def visit_FunctionDef(self, node):
        # annotations and defaults are not part of the executed body
        node.body = [self.visit(b) for b in node.body]
        return node

    def visit_AnnAssign(self, node):
        if node.value is not None:
            node.value = self.visit(node.value)
        return node

    def visit_match_case(self, node):
        # patterns are not expressions: leave them alone
        if node.guard is not None:
            node.guard = self.visit(node.guard)
        node.body = [self.visit(b) for b in node.body]
        return node

    def visit_Call(self, node):
        # do not wrap the callee name of a direct call (the function object itself is not an observation of interest)
        if isinstance(node.func, ast.Name):
            func = node.func
            node.args = [self.visit(a) for a in node.args]
            node.keywords = [self.visit(k) for k in node.keywords]
            node.func = func
            key = (node.lineno, node.col_offset, node.end_lineno, node.end_col_offset, "Call")
            return ast.copy_location(ast.Call(func=ast.Name(id="__rec", ctx=ast.Load()), args=[ast.Constant(key), node], keywords=[]), node)
        return self.generic_visit(node)


_MEMB = {}


def _members(pt, ns, usrc, objs):
    from ref.member import Unsupported, member
    if pt not in _MEMB:
        tt = eval(pt, ns)
        out = []
        for s, o in zip(usrc, objs):
            try:
                if member(o, tt):
                    out.append(s)
            except Unsupported:
                pass
        _MEMB[pt] = out
    return _MEMB[pt]


def _norm_inf(s):
    from pa.run import norm_text
    return re.sub(r"<mod>\.", "", norm_text(s))[:60]


def _run_programs(res, progs, base, only_arg=None, only_env=None):
    from pyanalyze.value import NO_RETURN_VALUE
    from pa.run import Rec, check, cleanup_module, node_key
    from ref.invalue import Unknown, in_value
    # all programs of the unit share one module: run_0 ... run_k
    srcs = []
    for k, (pt, src, tmpl) in enumerate(progs):
        srcs.append(src.replace("def run(", "def run_%d(" % k, 1))
    code = PRELUDE + "".join(srcs)
    fails, tree, mod = check(code, visitor_cls=Rec, want_module=True)
    res.transitions += 1
    try:
        ns = vars(mod)
        usrc = U.universe("quick")
        objs = [eval(s, ns) for s in usrc]
        fndefs = {n.name: n for n in tree.body if isinstance(n, ast.FunctionDef) and n.name.startswith("run_")}
        fresh = {n.name: n for n in ast.parse(code).body if isinstance(n, ast.FunctionDef) and n.name.startswith("run_")}
        internal = {}
        for f in fails:
            if f["code"].name == "internal_error":
                internal[f.get("lineno")] = f.get("description", "")
        for k, (pt, src, tmpl) in enumerate(progs):
            order = base + k
            res.states += 1
            fn = fndefs["run_%d" % k]
            bad_lines = [l for l in internal if fn.lineno <= (l or 0) <= fn.end_lineno]
            if bad_lines:
                res.violation({"kind": "internal_error", "where": internal[bad_lines[0]].strip().split("\n")[-1][:80]}, {"ptype": pt, "src": src, "tmpl": tmpl, "arg": None, "env": [], "order": order},
                              "internal_error while checking\n%s" % src)
                continue
            inf = {}
            for n in ast.walk(fn):
                if hasattr(n, "_inf"):
                    inf[node_key(n)] = n._inf
            # instrumented copy of this function only
            fn2 = _Instr().visit(fresh["run_%d" % k])
            m2 = ast.Module(body=[fn2], type_ignores=[])
            ast.fix_missing_locations(m2)
            obs = []

            def rec(key, val, _obs=obs):
                _obs.append((key, val))
                return val
            ens = dict(ns)
            ens["__rec"] = rec
            exec(compile(m2, "<instrumented>", "exec"), ens)
            runf = ens["run_%d" % k]
            args = _members(pt, ns, usrc, objs)
            if only_arg is not None:
                args = [only_arg]
            for asrc in args:
                # adaptive environment enumeration: default run first, then every answer sequence of the observed length (<= 4)
                envs = [[]]
                seen_envs = set()
                qi = 0
                while qi < len(envs):
                    env = envs[qi]
                    qi += 1
                    if only_env is not None and env != only_env and only_env not in envs:
                        envs.append(only_env)
                    arg = eval(asrc, ns)
                    del obs[:]
                    ns["_ENV"][:] = list(env)
                    consumed0 = len(env)
                    calls = [0]
                    try:
                        runf(arg)
                    except BaseException:
                        pass
                    res.transitions += 1
                    res.extra["executions"] += 1
                    left = len(ns["_ENV"])
                    ns["_ENV"][:] = []
                    if qi == 1 and only_env is None:
                        # how many answers were asked for in the default run?  enumerate all sequences up to length 4
                        for n_ans in range(1, 5):
                            for seq in itertools.product([False, True], repeat=n_ans):
                                if any(seq):
                                    envs.append(list(seq))
                        # prune: sequences are only useful if the program consults the environment at all
                        if "c()" not in src and "boom()" not in src:
                            del envs[1:]
                    # judge observations: first failing one only
                    for key, val in obs:
                        vals = inf.get(tuple(key))
                        res.validated += 1
                        if not vals:
                            seg = ast.get_source_segment(code, _find(fn, key)) or "?"
                            res.outcomes["unvisited"] += 1
                            res.violation({"kind": "reached-unvisited", "tmpl": tmpl, "node": seg, "guard": _guard(code, fn, key), "ptype": pt, "argtype": type(arg).__name__, "rtype": type(val).__name__},
                                          {"ptype": pt, "src": src, "tmpl": tmpl, "arg": asrc, "env": env, "order": order},
                                          "node `%s` is executed (value %r) for run(%s) env=%s but was never visited in the checking phase:\n%s" % (seg, val, asrc, env, src))
                            break
                        try:
                            ok = any(in_value(val, V) for V in vals)
                        except Unknown:
                            continue
                        except Exception:
                            continue
                        res.outcomes["sound" if ok else "unsound"] += 1
                        if not ok:
                            seg = ast.get_source_segment(code, _find(fn, key)) or "?"
                            V = vals[-1]
                            res.violation({"kind": "unsound", "tmpl": tmpl, "node": seg, "guard": _guard(code, fn, key), "ptype": pt, "argtype": type(arg).__name__, "rtype": type(val).__name__, "nest": _nest(val),
                                           "inferred": "Never" if V is NO_RETURN_VALUE else _norm_inf(str(V))},
                                          {"ptype": pt, "src": src, "tmpl": tmpl, "arg": asrc, "env": env, "order": order},
                                          "`%s` evaluates to %r (%s) for run(%s) env=%s but is inferred as %s:\n%s" % (seg, val, type(val).__name__, asrc, env, V, src))
                            break
            if order % 997 == 0:
                res.sample({"program": src, "arguments": args[:3]})
    finally:
        cleanup_module(mod)


def _guard(code, fn, key):
    """Innermost enclosing condition of the node (root-cause context): 'test-source/branch'."""
    target = _find(fn, key)
    best = ""

    def walk(node, ctx):
        nonlocal best
        if node is target:
            best = ctx
            return True
        if isinstance(node, ast.If):
            t = ast.get_source_segment(code, node.test)
            for ch in ast.walk(node.test):
                if ch is target:
                    best = ctx
                    return True
            for b in node.body:
                if walk(b, t + "/then"):
                    return True
            for b in node.orelse:
                if walk(b, t + "/else"):
                    return True
            return False
        if isinstance(node, ast.match_case):
            p = "case " + ast.get_source_segment(code, node.pattern)
            for b in node.body:
                if walk(b, p):
                    return True
            return False
        if isinstance(node, (ast.While, ast.For)):
            for ch in ast.iter_child_nodes(node):
                if walk(ch, ctx if ctx else type(node).__name__.lower()):
                    return True
            return False
        for ch in ast.iter_child_nodes(node):
            if walk(ch, ctx):
                return True
        return False
    walk(fn, "")
    return best


def _nest(val):
    n = 0
    while isinstance(val, tuple) and len(val) == 1:
        n += 1
        val = val[0]
    return n


def _find(fn, key):
    for n in ast.walk(fn):
        if isinstance(n, ast.expr) and (n.lineno, n.col_offset, n.end_lineno, n.end_col_offset, type(n).__name__) == tuple(key):
            return n
    return fn


def run_unit(unit):
    tier, lo, hi = unit
    res = UnitResult()
    _run_programs(res, programs(tier)[lo:hi], lo)
    return res


def replay(case):
    res = UnitResult()
    _run_programs(res, [(case["ptype"], case["src"], case.get("tmpl", "?"))], case.get("order", 0), only_arg=case.get("arg"), only_env=case.get("env") or None)
    return list(res.viol.values())


META = {
    "text": "Every program of the bounded grammar (25 parameter types x 40 expressions x 22 statement templates, plus two-construct programs with 12 follow-up templates) "
            "is checked by the real visitor with all per-node inferred values recorded, and executed under CPython on every universe member of the parameter type and every "
            "environment answer sequence (<= 4 answers) for opaque conditions and raising calls; each runtime value of each evaluated load node must be in an inferred value.",
    "note": "Trusted: ref/invalue.py, ref/member.py, CPython. Only the first failing observation per execution is classified.",
    "technique": "bounded exhaustive enumeration of programs x inputs x environment answers; instrumented execution under CPython as oracle for the real visitor's per-node values",
}
