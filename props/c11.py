"""C11 — suppression and enabling are a pure projection of the diagnostics (kind S over placements and subsets)."""
import itertools
import re

from mc.core import UnitResult

ID = "C11"
PARTS = ['comment', 'disable', 'disable-other', 'route-cli', 'route-override', 'route-override-longer', 'route-override-parent', 'route-override-prefix', 'route-override-child', 'route-top-level', 'hdisable', 'hcomment', 'two-modules-off', 'two-modules-on']      # outcome classes every run must produce (guards against a part of the exploration silently not running)
RULE = ("state = base program (every selection of <= 2/3 diagnostic lines from a pool incl. two codes on one line, a multi-line statement, first-line and last-line errors, the marker "
        "text inside a string literal) + one event: disable any subset of the occurring codes, or insert one/two ignore comments at any line in trailing or own-line form, bare / "
        "matching code / other code, with unused_ignore and bare_ignore on or off; real: the failures of NameCheckVisitor.check(); oracle: projection model — disabling removes "
        "exactly the codes named; a comment removes exactly the diagnostics on its own line (trailing) or the next line (own-line) of the named code (all when bare), a leading bare "
        "comment suppresses the file, unused_ignore iff the comment suppressed nothing, bare_ignore iff it has no code and is not file-level")
ASSUMPTIONS = ["D(P) of the unmodified program, as computed by the real visitor, is the reference the projections are applied to", "a coded comment at the top of the file is an ordinary own-line ignore (README: codes do not work for whole-file ignores)"]
MAXTASKS = 10
MARK = "# static analysis: ignore"

# (lines, kind) — 'mod' lines stand at module level (they must execute at import), 'fn' blocks are wrapped in a function
POOL = [
    (['x%d: int = "a"'], "mod"),                                  # incompatible_assignment, usable on line 1 / last line
    (["undefined_thing%d"], "fn"),                                # undefined_name
    (["(1).nope%d"], "fn"),                                       # undefined_attribute
    (["len(1, 2, 3)"], "fn"),                                     # incompatible_call
    (['1 + "a"'], "fn"),                                          # unsupported_operation
    (["print(undefined_q%d, (1).nope)"], "fn"),                   # two codes on one line
    (["len(", "    1,", "    2,", ")"], "fn"),                    # one diagnostic, statement spans four physical lines
    (['print("' + MARK + '", undefined_v%d)'], "fn"),             # marker text inside a string literal, not a comment
    (['y%d: str = 1'], "mod"),
    (["z = 1"], "mod"),
    (["print(a + s)"], "fnp"),                                    # operator on typed (not literal) operands: checked through captured sub-errors
    (["a += s"], "fnp"),                                           # no diagnostic: a line that ignores can be attached to in vain
    (["def mr%d(p: int) -> int:", "    pass"], "mod"),             # missing_return on the def line: its name is a prefix of another code's name (missing_return_annotation)
]


PREFIXES = [[], ["# a header comment"], ["# a header comment", ""], [""], ["# a header comment", "", "# another comment"]]


def base_programs(tier):
    """(prefix id, pool indices...): the prefix is a block of comment/blank lines before the first statement"""
    k = 2 if tier == "quick" else 3
    out = []
    idx = range(len(POOL))
    for n in range(1, k + 1):
        for sel in itertools.permutations(idx, n) if n <= 2 else itertools.combinations(idx, n):
            out.append((0,) + tuple(sel))
            if n <= (1 if tier == "quick" else 2):
                for pf in range(1, len(PREFIXES)):
                    out.append((pf,) + tuple(sel))
    # two statements behind a prefix: enough for "a comment before the first statement must not act on later statements"
    if tier == "quick":
        for pf in range(1, len(PREFIXES)):
            for sel in [(0, 1), (1, 2), (2, 0), (5, 1)]:
                out.append((pf,) + sel)
    return out


def render(sel):
    lines = list(PREFIXES[sel[0]])
    for j, pi in enumerate(sel[1:]):
        ls, kind = POOL[pi]
        ls = [l % j if "%d" in l else l for l in ls]
        if kind == "mod":
            lines += ls
        else:
            lines.append(("def f%d() -> None:" if kind == "fn" else "def f%d(a: int, s: str) -> None:") % j)
            lines += ["    " + l for l in ls]
    return lines


def bounds(tier):
    return {"base_programs": len(base_programs(tier)), "pool": len(POOL), "comments": 1, "routes": ["settings (all events)", "command line --disable, per-module override, top-level config (all single codes, %d programs)" % len(route_programs(tier))]}


CH = 6


def route_programs(tier):
    ps = [s for s in base_programs(tier) if s[0] == 0 and len(s) == 2]
    ps += [s for s in base_programs(tier) if s[0] == 0 and len(s) == 3][: (12 if tier == "quick" else 60)]
    return ps


def units(tier):
    n = len(base_programs(tier))
    nr = len(route_programs(tier))
    return [("settings", tier, i, min(n, i + CH)) for i in range(0, n, CH)] + [("routes", tier, i, min(nr, i + 2)) for i in range(0, nr, 2)] + [("harv", tier, i, i + HSTEP) for i in range(0, 920, HSTEP)] + [("two", tier, 0, 0)]


def _cli(args, cwd):
    """run the real command line in a subprocess; returns sorted (code, line, col) from --json-output"""
    import json
    import os
    import subprocess
    import sys
    out = os.path.join(cwd, "out.json")
    if os.path.exists(out):
        os.remove(out)
    env = dict(os.environ, PYTHONPATH=os.environ.get("VERIF_REPO", "/repo"))
    p = subprocess.run([sys.executable, "-m", "pyanalyze", "--json-output", out] + args, cwd=cwd, env=env, stdout=subprocess.PIPE, stderr=subprocess.PIPE, text=True, timeout=300)
    if not os.path.exists(out):
        if p.returncode == 0:
            return [], ""          # no failures: nothing is written
        return None, p.stderr[-400:]
    with open(out) as f:
        data = json.load(f)
    return sorted((e["code"], e.get("lineno"), e.get("col_offset")) for e in data), ""


_ROUTE_N = [0]


def _routes(res, tier, lo, hi, only_event=None):
    import os
    import shutil
    import tempfile
    for k, sel in enumerate(route_programs(tier)[lo:hi]):
        order = 10 ** 7 + lo + k
        lines = render(sel)
        if any(MARK in l for l in lines):
            continue
        src = "\n".join(lines) + "\n"
        _ROUTE_N[0] += 1
        d = tempfile.mkdtemp(prefix="verif-c11r-", dir="/dev/shm")
        try:
            pkg = "vpkg%d_%d_%d" % (os.getpid(), lo, _ROUTE_N[0])      # unique dotted name: the importer caches modules by name
            os.mkdir(os.path.join(d, pkg))
            open(os.path.join(d, pkg, "__init__.py"), "w").close()
            fn = os.path.join(d, pkg, "mod.py")
            with open(fn, "w") as f:
                f.write(src)
            with open(os.path.join(d, "base.toml"), "w") as f:
                f.write('[tool.pyanalyze]\nimport_paths = ["%s"]\n' % d)
            base, err = _cli(["--config-file", os.path.join(d, "base.toml"), fn], d)
            res.transitions += 1
            case0 = {"sel": list(sel), "order": order}
            if base is None:
                res.violation({"kind": "cli-produced-no-output"}, dict(case0, event=["route", "baseline"]), "python -m pyanalyze wrote no JSON output for\n%s\n%s" % (src, err))
                continue
            res.states += 1
            for c in sorted({b[0] for b in base}):
                exp = [b for b in base if b[0] != c]
                # override: on the module itself; override-parent: on its package (applies to submodules); override-prefix / override-longer: on
                # a *different* module whose dotted name is a string prefix / extension of this one (must change nothing)
                for route in ("cli", "override", "top-level", "override-parent", "override-prefix", "override-longer", "override-child"):
                    ev = ["route", route, c]
                    if only_event is not None and only_event != ev:
                        continue
                    if route == "cli":
                        got, err = _cli(["--config-file", os.path.join(d, "base.toml"), "--disable", c, fn], d)
                    else:
                        cfg = os.path.join(d, "r.toml")
                        with open(cfg, "w") as f:
                            if route.startswith("override"):
                                target = {"override": pkg + ".mod", "override-parent": pkg, "override-prefix": pkg + ".mo", "override-longer": pkg + ".mod_x", "override-child": pkg + ".mod.sub"}[route]
                                f.write('[tool.pyanalyze]\nimport_paths = ["%s"]\n[[tool.pyanalyze.overrides]]\nmodule = "%s"\n%s = false\n' % (d, target, c))
                            else:
                                f.write('[tool.pyanalyze]\nimport_paths = ["%s"]\n%s = false\n' % (d, c))
                        got, err = _cli(["--config-file", cfg, fn], d)
                    res.states += 1
                    res.transitions += 1
                    res.validated += 1
                    if route in ("override-prefix", "override-longer", "override-child"):
                        exp = list(base)
                    else:
                        exp = [b for b in base if b[0] != c]
                    res.outcomes["route-%s:%s" % (route, "projection" if got == exp else "differs")] += 1
                    if got != exp:
                        res.violation({"kind": "disable-not-projection", "route": route, "in_string": "0", "lost": ",".join(sorted({g[0] for g in exp if got is None or g not in got})),
                                       "extra": ",".join(sorted({g[0] for g in (got or []) if g not in exp}))}, dict(case0, event=ev),
                                      "disabling %s through the %s route on\n%s\nexpected %s\ngot %s %s" % (c, route, src, exp, got, err))
        finally:
            shutil.rmtree(d, ignore_errors=True)


OFF_BY_DEFAULT = ["implicit_any", "missing_return_annotation", "value_always_true"]
TWO_MOD = {"a.py": "class K:\n    def m(self) -> None:\n        print(self.nope_a)\ndef f() -> None:\n    undefined_a\n",
           "b.py": "class L:\n    def m(self) -> None:\n        print(self.nope_b)\ndef g(p):\n    undefined_b\n    return p\n"}


def _cli_files(args, cwd):
    """like _cli, with the file's base name in front of every entry"""
    import json
    import os
    import subprocess
    import sys
    out = os.path.join(cwd, "out.json")
    if os.path.exists(out):
        os.remove(out)
    env = dict(os.environ, PYTHONPATH=os.environ.get("VERIF_REPO", "/repo"))
    p = subprocess.run([sys.executable, "-m", "pyanalyze", "--json-output", out] + args, cwd=cwd, env=env, stdout=subprocess.PIPE, stderr=subprocess.PIPE, text=True, timeout=300)
    if not os.path.exists(out):
        return ([] if p.returncode == 0 else None), p.stderr[-400:]
    with open(out) as f:
        data = json.load(f)
    return sorted((os.path.basename(e.get("filename") or e.get("absolute_filename") or "?"), e["code"], e.get("lineno")) for e in data), ""


def _two_modules(res, only=None):
    """one run of the real command line over a package with two modules: a code switched (off / on) for ONE module through an override must change that
    module's diagnostics only; codes that are off by default switched on through an override give what the top-level switch gives for that module"""
    import os
    import shutil
    import tempfile
    d = tempfile.mkdtemp(prefix="verif-c11t-", dir="/dev/shm")
    try:
        pkg = "vtwo%d" % os.getpid()
        os.mkdir(os.path.join(d, pkg))
        open(os.path.join(d, pkg, "__init__.py"), "w").close()
        for fn, text in TWO_MOD.items():
            with open(os.path.join(d, pkg, fn), "w") as f:
                f.write(text)
        files = [os.path.join(d, pkg, fn) for fn in sorted(TWO_MOD)]
        head = '[tool.pyanalyze]\nimport_paths = ["%s"]\n' % d

        def run(extra):
            cfg = os.path.join(d, "c.toml")
            with open(cfg, "w") as f:
                f.write(head + extra)
            return _cli_files(["--config-file", cfg] + files, d)
        base, err = run("")
        res.transitions += 1
        if not base:
            res.violation({"kind": "cli-produced-no-output", "route": "two-modules"}, {"mode": "two", "event": ["baseline"], "order": 3 * 10 ** 7}, "no diagnostics for the two-module package: %s" % err)
            return
        res.states += 1
        for code in sorted({b[1] for b in base}):
            for target in ("a", "b"):
                ev = ["off", code, target]
                if only is not None and ev != only:
                    continue
                got, err = run('[[tool.pyanalyze.overrides]]\nmodule = "%s.%s"\n%s = false\n' % (pkg, target, code))
                exp = [b for b in base if not (b[0] == target + ".py" and b[1] == code)]
                res.states += 1
                res.transitions += 1
                res.validated += 1
                res.outcomes["two-modules-off:%s" % ("projection" if got == exp else "differs")] += 1
                if got != exp:
                    res.violation({"kind": "disable-not-projection", "route": "two-modules", "in_string": "0", "lost": ",".join(sorted({"%s:%s" % (g[0], g[1]) for g in exp if got is None or g not in got})),
                                   "extra": ",".join(sorted({"%s:%s" % (g[0], g[1]) for g in (got or []) if g not in exp}))}, {"mode": "two", "event": ev, "order": 3 * 10 ** 7},
                                  "override %s = false for module %s only, in a run over a.py and b.py:\nexpected %s\ngot      %s %s" % (code, target, exp, got, err))
        for code in OFF_BY_DEFAULT:
            on_everywhere, err = run("%s = true\n" % code)
            res.transitions += 1
            for target in ("a", "b"):
                ev = ["on", code, target]
                if only is not None and ev != only:
                    continue
                got, err = run('[[tool.pyanalyze.overrides]]\nmodule = "%s.%s"\n%s = true\n' % (pkg, target, code))
                exp = sorted(list(base) + [b for b in (on_everywhere or []) if b[0] == target + ".py" and b[1] == code])
                res.states += 1
                res.transitions += 1
                res.validated += 1
                res.outcomes["two-modules-on:%s" % ("projection" if got == exp else "differs")] += 1
                if got != exp:
                    res.violation({"kind": "enable-not-projection", "route": "two-modules", "code": code, "lost": ",".join(sorted({"%s:%s" % (g[0], g[1]) for g in exp if got is None or g not in got})),
                                   "extra": ",".join(sorted({"%s:%s" % (g[0], g[1]) for g in (got or []) if g not in exp}))}, {"mode": "two", "event": ev, "order": 3 * 10 ** 7},
                                  "override %s = true for module %s only:\nexpected (top-level switch, restricted to that module) %s\ngot %s %s" % (code, target, exp, got, err))
    finally:
        shutil.rmtree(d, ignore_errors=True)


def _check(src, settings=None, key="default"):
    from pa.run import check, get_checker, norm_text
    ck = get_checker(key, settings=settings)
    fails = check(src, checker=ck)
    out = []
    for f in fails:
        out.append((f["code"].name, f.get("lineno"), f.get("col_offset"), norm_text(f.get("description", ""))))
    return sorted(out, key=lambda d: (d[1] or 0, d[0], d[2] or 0, d[3]))


def _indent(line):
    return len(line) - len(line.lstrip(" "))


def _strip_pos(ds):
    """descriptions may embed line numbers of their own; compare on (code, line, col)."""
    return sorted((c, l, col) for c, l, col, _ in ds)


def _run_base(res, tier, sel, order0, only_event=None):
    from pyanalyze.error_code import ErrorCode
    lines = render(sel)
    src = "\n".join(lines) + "\n"
    D = _check(src)
    res.transitions += 1
    codes = sorted({d[0] for d in D})
    case0 = {"sel": list(sel), "order": order0}
    if not D:
        res.outcomes["base-without-diagnostics"] += 1
        return
    res.states += 1
    # ---- (0) the text of a string literal is not a comment: changing it must not change the diagnostics
    if any(MARK in l for l in lines) and only_event in (None, ["string"]):
        alt = src.replace('"' + MARK, '"# static_analysis: ignore')
        D2 = _check(alt)
        res.transitions += 1
        res.validated += 1
        if _strip_pos(D2) != _strip_pos(D):
            res.violation({"kind": "string-literal-acts-as-comment"}, dict(case0, event=["string"]),
                          "the marker text inside a string literal changes the diagnostics:\n%s\nwith the marker %s\nwithout it  %s" % (src, _strip_pos(D), _strip_pos(D2)))
    # ---- (a) disabling subsets of codes through the settings route
    for r in range(1, len(codes) + 1):
        for S in itertools.combinations(codes, r):
            ev = ["disable", list(S)]
            if only_event is not None and only_event != ev:
                continue
            res.states += 1
            settings = {getattr(ErrorCode, c): False for c in S}
            got = _check(src, settings=settings, key="dis:" + ",".join(S))
            res.transitions += 1
            exp = [d for d in D if d[0] not in S]
            res.validated += 1
            res.outcomes["disable:%s" % ("projection" if got == exp else "differs")] += 1
            if got != exp:
                lost = [d for d in exp if d not in got]
                extra = [d for d in got if d not in exp]
                res.violation({"kind": "disable-not-projection", "in_string": str(int(any(MARK in l for l in lines))), "lost": ",".join(sorted({d[0] for d in lost})), "extra": ",".join(sorted({d[0] for d in extra}))},
                              dict(case0, event=ev), "disabling %s on\n%s\nexpected %s\ngot %s" % (S, src, _strip_pos(exp), _strip_pos(got)))
    # ---- (a') disabling any single code that does not occur must change nothing
    for ec in (ErrorCode if sel[0] == 0 and len(sel) <= (2 if tier == "quick" else 3) else ()):
        c = ec.name
        if c in codes or c in ("unused_ignore", "bare_ignore"):
            continue
        ev = ["disable", [c]]
        if only_event is not None and only_event != ev:
            continue
        res.states += 1
        got = _check(src, settings={ec: False}, key="dis1:" + c)
        res.transitions += 1
        res.validated += 1
        res.outcomes["disable-other:%s" % ("unchanged" if got == D else "changed")] += 1
        if got != D:
            lost = [d for d in D if d not in got]
            extra = [d for d in got if d not in D]
            res.violation({"kind": "disable-not-projection", "in_string": str(int(any(MARK in l for l in lines))), "lost": ",".join(sorted({d[0] for d in lost})),
                           "extra": ",".join(sorted({d[0] for d in extra})), "disabled": c},
                          dict(case0, event=ev), "disabling the non-occurring code %s on\n%s\nexpected %s\ngot %s" % (c, src, _strip_pos(D), _strip_pos(got)))
    # ---- (b) one ignore comment at every line, both forms, bare / each code / another code
    if any(MARK in l for l in lines):
        return      # programs carrying the marker inside a string literal are judged by (0) and (a) only: their baseline already depends on that literal
    other = "bad_format_string" if "bad_format_string" not in codes else "undefined_name"
    variants = [None] + codes + [other]
    # a code that is only raised (and captured) while an operator tries its candidate dunder calls, never reported by itself
    if "incompatible_argument" not in variants and any(l.strip() in ("print(a + s)", "a += s") for l in lines):
        variants.append("incompatible_argument")
    # codes whose name starts with (or is the start of) the name of an occurring code: ignore[missing_return_annotation] must not match missing_return
    for c in codes:
        for ec in ErrorCode:
            if ec.name != c and (ec.name.startswith(c) or c.startswith(ec.name)) and ec.name not in variants:
                variants.append(ec.name)
    Dmode = {}
    modes = [(False, False), (True, True)]      # (unused_ignore, bare_ignore) enabled?
    for li in range(len(lines) + 1):
        for form in ("trailing", "own"):
            if li == len(lines) and form == "trailing":
                continue
            if form == "trailing" and li < len(lines) and not lines[li].strip():
                continue        # a "trailing" comment on a blank line is an own-line comment
            for code in variants:
                for unused_on, bare_on in modes:
                    ev = ["comment", li, form, code, unused_on]
                    if only_event is not None and only_event != ev:
                        continue
                    res.states += 1
                    text = MARK + ("[%s]" % code if code else "")
                    new = list(lines)
                    if form == "trailing":
                        new[li] = new[li] + "  " + text
                        shift = lambda l: l
                        target = li + 1
                        comment_line = li + 1
                    elif li == len(lines):
                        # an own-line comment after the last statement: it has no next line to act on
                        new.append(text)
                        shift = lambda l: l
                        target = None
                        comment_line = li + 1
                    else:
                        new.insert(li, " " * _indent(lines[li]) + text)
                        shift = lambda l, li=li: l + 1 if l is not None and l > li else l
                        target = li + 2
                        comment_line = li + 1
                    nsrc = "\n".join(new) + "\n"
                    try:
                        compile(nsrc, "<c11>", "exec")
                    except SyntaxError:
                        res.outcomes["comment:not-a-program"] += 1
                        continue          # e.g. an own-line comment cannot change syntax, a trailing one inside a string cannot occur; defensive
                    settings = {ErrorCode.unused_ignore: unused_on, ErrorCode.bare_ignore: bare_on}
                    got = _check(nsrc, settings=settings, key="ign:%s%s" % (unused_on, bare_on))
                    res.transitions += 1
                    if (unused_on, bare_on) not in Dmode:
                        Dmode[(unused_on, bare_on)] = _check(src, settings=settings, key="ign:%s%s" % (unused_on, bare_on))
                    Dm = Dmode[(unused_on, bare_on)]
                    meta0 = [(c, shift(l)) for c, l, col, desc in Dm if c in ("unused_ignore", "bare_ignore")]
                    shifted = [(c, shift(l), col, desc) for c, l, col, desc in Dm if c not in ("unused_ignore", "bare_ignore")]
                    # file-level: a bare own-line comment with nothing but comment lines above it (a blank line is not a comment line)
                    file_level = form == "own" and code is None and li < len(lines) and all(l.startswith("#") for l in lines[:li])
                    if file_level:
                        exp_core = []
                        suppressed = list(shifted)
                    else:
                        suppressed = [d for d in shifted if d[1] == target and (code is None or d[0] == code)]
                        exp_core = [d for d in shifted if d not in suppressed]
                    exp_extra = list(meta0)
                    if unused_on and not suppressed and not file_level:
                        exp_extra.append(("unused_ignore", comment_line))
                    if bare_on and code is None and not file_level:
                        exp_extra.append(("bare_ignore", comment_line))
                    got_core = [d for d in got if d[0] not in ("unused_ignore", "bare_ignore")]
                    got_extra = sorted((d[0], d[1]) for d in got if d[0] in ("unused_ignore", "bare_ignore"))
                    res.validated += 1
                    ok = _strip_pos(got_core) == _strip_pos(exp_core) and got_extra == sorted(exp_extra)
                    res.outcomes["comment:%s" % ("projection" if ok else "differs")] += 1
                    if not ok:
                        lost = [d for d in _strip_pos(exp_core) if d not in _strip_pos(got_core)]
                        extra = [d for d in _strip_pos(got_core) if d not in _strip_pos(exp_core)]
                        where = "first" if li == 0 else ("after-last" if li == len(lines) else "last" if li == len(lines) - 1 else "middle")
                        tgt_kind = "target-has-diag" if suppressed else "target-clean"
                        sig = {"kind": "comment-not-projection", "form": form, "code": "bare" if code is None else ("matching" if code in codes else "other"),
                               "where": where, "target": tgt_kind, "before_first_stmt": str(int(li < len(lines) and all(l.startswith("#") for l in lines[:li]))),
                               "core": ("over-suppressed" if lost and not extra else "under-suppressed" if extra and not lost else "both" if lost else "ok"),
                               "meta": "ok" if got_extra == sorted(exp_extra) else "unused/bare:%s->%s" % (sorted(exp_extra), got_extra),
                               "in_string": str(int(any(MARK in l and "print(" in l for l in lines))),
                               "lost_line1": str(int(any(l == 1 or (form == "own" and l == 2 and li == 0) for _, l, _ in lost)))}
                        res.violation(sig, dict(case0, event=ev),
                                      "%s comment %r at line %d of\n%s\nexpected %s + %s\ngot      %s + %s" % (form, text, li + 1, nsrc, _strip_pos(exp_core), sorted(exp_extra), _strip_pos(got_core), got_extra))
    if order0 % 13 == 0:
        res.sample({"program": src, "diagnostics": _strip_pos(D)})


# ---- the programs of pyanalyze's own test-suite that have diagnostics (ref/harvest.py): realistic programs, many codes ----------------
HSTEP = 40


def _hprogs():
    from ref.harvest import harvest
    from props.c10_harvest import _INHERENT
    return [(n, s, st) for n, s, st in harvest() if "static analysis" not in s and not _INHERENT.search(s)]


def _hcheck(src, settings, extra):
    from pa.run import check, make_checker, norm_text, test_module_factory
    from pyanalyze.error_code import ErrorCode
    st = {getattr(ErrorCode, k): v for k, v in (settings or {}).items()}
    st.update({getattr(ErrorCode, k): v for k, v in extra.items()})
    key = repr(sorted((k.name, v) for k, v in st.items()))
    if key not in _HCK:
        _HCK[key] = make_checker(st)
    try:
        fails = check(src, checker=_HCK[key], module_factory=test_module_factory())
    except Exception as e:
        return None
    out = [(f["code"].name, f.get("lineno"), f.get("col_offset"), norm_text(f.get("description", ""))) for f in fails]
    return sorted(out, key=lambda d: (d[1] or 0, d[0], d[2] or 0, d[3]))


_HCK = {}


def _harv(res, tier, lo, hi, only=None):
    """only = (program name, event)"""
    H = _hprogs()
    for pi in range(lo, min(hi, len(H))):
        name, src, settings = H[pi]
        if only is not None and name != only[0]:
            continue
        base_extra = {"unused_ignore": False, "bare_ignore": False}
        D = _hcheck(src, settings, base_extra)
        res.transitions += 1
        if not D:
            res.outcomes["harvested:%s" % ("unloadable" if D is None else "no-diagnostics")] += 1
            continue
        res.states += 1
        case0 = {"mode": "harv", "name": name, "order": 2 * 10 ** 7 + pi * 1000}
        codes = sorted({d[0] for d in D})
        lines = src.split("\n")
        events = [["disable", [c]] for c in codes] + ([["disable", codes]] if len(codes) > 1 else [])
        seen_lines = set()
        for d in D:
            ln = d[1]
            if not isinstance(ln, int) or not (1 <= ln <= len(lines)) or ln in seen_lines:
                continue
            seen_lines.add(ln)
            here = sorted({x[0] for x in D if x[1] == ln})
            for c in here + [None]:
                events.append(["comment", ln, c])
        for ei, ev in enumerate(events):
            if only is not None and ev != only[1]:
                continue
            if ev[0] == "disable":
                S = ev[1]
                got = _hcheck(src, settings, dict(base_extra, **{c: False for c in S}))
                exp = [d for d in D if d[0] not in S]
                what = "disabling %s" % S
                sig = {"kind": "h-disable-not-projection"}
            else:
                _, ln, c = ev
                text = MARK + ("[%s]" % c if c else "")
                new = list(lines)
                new[ln - 1] = new[ln - 1] + "  " + text
                nsrc = "\n".join(new)
                try:
                    compile(nsrc, "<c11h>", "exec")
                    import ast as _ast
                    if _ast.dump(_ast.parse(nsrc)) != _ast.dump(_ast.parse(src)):
                        raise SyntaxError("the comment landed inside a string literal")
                except SyntaxError:
                    res.outcomes["hcomment:not-a-program"] += 1
                    continue
                got = _hcheck(nsrc, settings, base_extra)
                exp = [d for d in D if not (d[1] == ln and (c is None or d[0] == c))]
                what = "trailing comment %r on line %d" % (text, ln)
                sig = {"kind": "h-comment-not-projection", "code": "bare" if c is None else "matching"}
            res.states += 1
            res.transitions += 1
            res.validated += 1
            ok = got == exp
            res.outcomes["h%s:%s" % (ev[0], "projection" if ok else "differs")] += 1
            if not ok:
                lost = sorted({d[0] for d in exp if got is None or d not in got})
                extra = sorted({d[0] for d in (got or []) if d not in exp})
                sig.update({"lost": ",".join(lost), "extra": ",".join(extra), "in_string": str(int(MARK in src))})
                res.violation(sig, dict(case0, event=ev, order=case0["order"] + ei),
                              "%s on test-suite program %s\nexpected %s\ngot      %s" % (what, name, [d[:3] for d in exp], None if got is None else [d[:3] for d in got]))
    res.sample({"harvested_range": [lo, hi]})


def run_unit(unit):
    kind, tier, lo, hi = unit
    res = UnitResult()
    if kind == "harv":
        _harv(res, tier, lo, hi)
        return res
    if kind == "two":
        _two_modules(res)
        return res
    if kind == "routes":
        _routes(res, tier, lo, hi)
        return res
    for i, sel in enumerate(base_programs(tier)[lo:hi]):
        _run_base(res, tier, sel, lo + i)
    return res


def replay(case):
    res = UnitResult()
    if case.get("mode") == "two":
        _two_modules(res, only=case["event"] if case["event"] != ["baseline"] else None)
        return list(res.viol.values())
    if case.get("mode") == "harv":
        H = _hprogs()
        i = [n for n, _, _ in H].index(case["name"])
        _harv(res, "quick", i, i + 1, only=(case["name"], case["event"]))
        return list(res.viol.values())
    if case.get("event") and case["event"][0] == "route":
        for tier in ("quick", "thorough"):
            rp = route_programs(tier)
            if tuple(case["sel"]) in rp:
                i = rp.index(tuple(case["sel"]))
                _routes(res, tier, i, i + 1, only_event=case["event"] if case["event"][1] != "baseline" else None)
                break
        return list(res.viol.values())
    _run_base(res, "quick", tuple(case["sel"]), case.get("order", 0), only_event=case.get("event"))
    return list(res.viol.values())


META = {
    "text": "For every base program and every event (disable any subset of occurring codes; insert an ignore comment at any line, trailing or own-line, bare / each occurring code / "
            "another code, with unused_ignore+bare_ignore off and on) the real visitor's failures are compared with the projection of the unmodified program's failures.",
    "note": "Differential: the reference is the real D(P) itself plus a 20-line projection model. Comment placements are explored through the settings route; disabling is also explored through the real command line, a per-module override and a top-level config entry (subprocesses).",
    "technique": "explicit-state exploration of (program, suppression event) pairs against the real visitor, oracle = projection reference model",
}
