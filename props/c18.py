"""C18 — configuration layering follows the documented precedence (kind S over file stacks)."""
import itertools
import os
import shutil
import tempfile
from pathlib import Path

from mc.core import UnitResult

ID = "C18"
PARTS = ['bool', 'disable_all', 'disable_all_off', 'error-case', 'int', 'list', 'pathlist', 'cli-assembly']      # outcome classes every run must produce (guards against a part of the exploration silently not running)
RULE = ("state = a stack of 1-3 config files chained by extend_config (written first or last in the table), each setting or not, per scope (top, override a, override a.b), "
        "one option (boolean error code / integer / list / disable_all + explicit enable), plus a command-line instance, queried for modules (), a, a.b, a.b.c, x; every "
        "combination is enumerated; real: Options.from_option_list(cmdline, main file).for_module(m).get_value_for / is_error_code_enabled; oracle: the documented precedence "
        "(command line > most specific override of the main file > main top level > same lookup in extended files in inclusion order > default; lists concatenate in that order); "
        "error alphabet: every malformed configuration must raise InvalidConfigOption")
ASSUMPTIONS = ["the precedence model is the one stated by the property (ref model in this file, 40 lines)", "values are unique per (file, scope) so the chosen source is identifiable"]
MAXTASKS = 6
SCOPES = [(), ("a",), ("a", "b")]
# queried modules: inside/outside the overrides, and names that merely share a string prefix with an override name
MODULES = [(), ("a",), ("a", "b"), ("a", "b", "c"), ("x",), ("ab",), ("a", "bc"), ("aa", "b")]


def _toml_value(v):
    if isinstance(v, bool):
        return "true" if v else "false"
    if isinstance(v, int):
        return str(v)
    if isinstance(v, str):
        return '"%s"' % v
    if isinstance(v, list):
        return "[" + ", ".join(_toml_value(x) for x in v) + "]"
    raise TypeError(v)


def write_stack(d, files, extend_first):
    """files: list of {scope: {key: value}}; file i extends file i+1.  Returns the path of the main file."""
    for i, f in enumerate(files):
        lines = ["[tool.pyanalyze]"]
        ext = 'extend_config = "f%d.toml"' % (i + 1) if i + 1 < len(files) else None
        if ext and extend_first:
            lines.append(ext)
        for k, v in f.get((), {}).items():
            lines.append("%s = %s" % (k, _toml_value(v)))
        if ext and not extend_first:
            lines.append(ext)
        for sc in SCOPES[1:]:
            if sc in f:
                lines.append("[[tool.pyanalyze.overrides]]")
                lines.append('module = "%s"' % ".".join(sc))
                for k, v in f[sc].items():
                    lines.append("%s = %s" % (k, _toml_value(v)))
        (d / ("f%d.toml" % i)).write_text("\n".join(lines) + "\n")
    return d / "f0.toml"


def expected_sources(files, module, key):
    """Ordered list of (file index, scope) whose setting of key applies to module, highest precedence first."""
    out = []
    for i, f in enumerate(files):
        for sc in sorted(SCOPES, key=lambda s: -len(s)):
            if sc in f and key in f[sc] and module[:len(sc)] == sc:
                out.append((i, sc))
    return out


# ---- enumeration ---------------------------------------------------------------------------------

def configs(tier):
    """(kind, nfiles, assignment tuple, cmdline set?, extend_first)"""
    out = []
    nfs = (1, 2) if tier == "quick" else (1, 2, 3)
    for nf in nfs:
        locs = nf * 3
        for kind in ("int", "list"):
            for assign in itertools.product((0, 1), repeat=locs):
                for cmd in (False, True):
                    for ef in ((True, False) if nf > 1 else (True,)):
                        out.append((kind, nf, assign, cmd, ef))
        # a list-valued option of the path kind (stub_path): "list-valued options concatenate in that order"
        for assign in itertools.product((0, 1), repeat=locs):
            if sum(assign) >= 2:
                for ef in ((True, False) if nf > 1 else (True,)):
                    out.append(("pathlist", nf, assign, False, ef))
        vals3 = (None, True, False)
        for assign in itertools.product(range(3), repeat=locs):
            if nf == 3 and sum(1 for a in assign if a) > 5:
                continue       # three files: at most five locations set (keeps the space at ~1e4 configurations)
            for cmd in (False, True):
                for ef in ((True, False) if nf > 1 else (True,)):
                    out.append(("bool", nf, assign, cmd, ef))
        # disable_all at (top, a) of each file x explicit enable of one code at (top, a) of each file
        if nf <= 2:
            for da in itertools.product((0, 1, 2), repeat=nf * 2):      # unset / disable_all = true / disable_all = false
                if 1 not in da:
                    continue
                for en in itertools.product(range(3), repeat=nf * 2):
                    out.append(("disable_all", nf, da + en, False, True))
                    if any(en):
                        # the same with a code that is off by default (missing_return_annotation): a disable_all section must still shadow an enable below it
                        out.append(("disable_all_off", nf, da + en, False, True))
    return out


CH = 400


def bounds(tier):
    return {"max_files": 2 if tier == "quick" else 3, "configurations": len(configs(tier)), "modules": len(MODULES), "error_cases": len(error_cases())}


def units(tier):
    n = len(configs(tier))
    return [("layer", tier, i, min(n, i + CH)) for i in range(0, n, CH)] + [("errors", tier, 0, 0), ("cli", tier, 0, 0)]


def _build(kind, nf, assign):
    files = [dict() for _ in range(nf)]
    if kind in ("disable_all", "disable_all_off"):
        code = "undefined_name" if kind == "disable_all" else "missing_return_annotation"
        da, en = assign[:nf * 2], assign[nf * 2:]
        for i in range(nf):
            for j, sc in enumerate(SCOPES[:2]):
                if da[i * 2 + j]:
                    files[i].setdefault(sc, {})["disable_all"] = (da[i * 2 + j] == 1)
                e = en[i * 2 + j]
                if e:
                    files[i].setdefault(sc, {})[code] = (e == 1)
        return files
    for i in range(nf):
        for j, sc in enumerate(SCOPES):
            a = assign[i * 3 + j]
            if not a:
                continue
            if kind == "int":
                v = 100 + 10 * i + j
            elif kind in ("list", "pathlist"):
                v = ["f%ds%d" % (i, j)]
            else:
                v = (a == 1)
            key = {"int": "maximum_positional_args", "list": "extra_builtins", "bool": "undefined_name", "pathlist": "stub_path"}[kind]
            files[i].setdefault(sc, {})[key] = v
    return files


def _layer(res, tier, lo, hi):
    from pyanalyze.error_code import ErrorCode
    from pyanalyze.name_check_visitor import ExtraBuiltins
    from pyanalyze.options import ConfigOption, InvalidConfigOption, Options
    from pyanalyze.signature import MaximumPositionalArgs
    d = Path(tempfile.mkdtemp(prefix="verif-c18-", dir="/dev/shm"))
    try:
        cs = configs(tier)[lo:hi]
        for ci, (kind, nf, assign, cmd, ef) in enumerate(cs):
            res.states += 1
            order = lo + ci
            files = _build(kind, nf, assign)
            main = write_stack(d, files, ef)
            cmdline = []
            if cmd:
                if kind == "int":
                    cmdline = [MaximumPositionalArgs(999, from_command_line=True)]
                elif kind == "list":
                    cmdline = [ExtraBuiltins(["cmd"], from_command_line=True)]
                elif kind == "bool":
                    cmdline = [ConfigOption.registry["undefined_name"](False, from_command_line=True)]
            case = {"mode": "layer", "cfg": [kind, nf, list(assign), cmd, ef], "order": order, "tier": tier, "unit_lo": lo}
            try:
                opts = Options.from_option_list(cmdline, config_file_path=main)
            except Exception as e:
                res.violation({"kind": "valid-config-rejected", "opt": kind, "exc": type(e).__name__}, case, "a well-formed stack of %d file(s) raised %r" % (nf, e))
                continue
            res.transitions += 1
            for m in MODULES:
                om = opts.for_module(m)
                res.validated += 1
                if kind == "int":
                    got = om.get_value_for(MaximumPositionalArgs)
                    src = expected_sources(files, m, "maximum_positional_args")
                    exp = 999 if cmd else (files[src[0][0]][src[0][1]]["maximum_positional_args"] if src else 10)
                elif kind == "list":
                    got = [x for x in om.get_value_for(ExtraBuiltins) if x != "__IPYTHON__"]
                    src = expected_sources(files, m, "extra_builtins")
                    exp = (["cmd"] if cmd else []) + [x for (i, sc) in src for x in files[i][sc]["extra_builtins"]]
                elif kind == "pathlist":
                    from pyanalyze.typeshed import StubPath
                    got = [Path(x).name for x in om.get_value_for(StubPath)]
                    src = expected_sources(files, m, "stub_path")
                    exp = [x for (i, sc) in src for x in files[i][sc]["stub_path"]]
                elif kind == "bool":
                    got = om.is_error_code_enabled(ErrorCode.undefined_name)
                    src = expected_sources(files, m, "undefined_name")
                    exp = False if cmd else (files[src[0][0]][src[0][1]]["undefined_name"] if src else True)
                else:
                    code1 = "undefined_name" if kind == "disable_all" else "missing_return_annotation"
                    got = (om.is_error_code_enabled(getattr(ErrorCode, code1)), om.is_error_code_enabled(ErrorCode.undefined_attribute))
                    # each (file, scope) section: explicit setting of undefined_name wins inside the section; disable_all turns every code that the same
                    # section does not enable off; sections are ordered by the ordinary precedence
                    def lookup(code):
                        for i, f in enumerate(files):
                            for sc in sorted(SCOPES, key=lambda s: -len(s)):
                                if sc in f and m[:len(sc)] == sc:
                                    sec = f[sc]
                                    if code in sec:
                                        return sec[code]
                                    if sec.get("disable_all"):
                                        return False
                                    if sec.get("disable_all") is False:
                                        # an explicit `disable_all = false` in a more specific section: the less specific ones no longer disable
                                        return code != "missing_return_annotation"
                        return code != "missing_return_annotation"      # the default: on, except for the off-by-default code
                    exp = (lookup(code1), lookup("undefined_attribute"))
                res.outcomes["%s:%s" % (kind, "agree" if got == exp else "differ")] += 1
                if got != exp:
                    winner = ""
                    if kind in ("int", "bool") and not cmd:
                        # which source did the implementation pick?
                        picked = [(i, sc) for i, f in enumerate(files) for sc in f if (kind == "int" and f[sc].get("maximum_positional_args") == got)]
                        winner = "f%d/%s" % (picked[0][0], ".".join(picked[0][1]) or "top") if picked and kind == "int" else ""
                    srcs = ">".join("f%d/%s" % (i, ".".join(sc) or "top") for i, sc in (src if not kind.startswith("disable_all") else []))
                    da_false = str(int(any(sec.get("disable_all") is False for f in files for sec in f.values())))
                    res.violation({"kind": "wrong-effective-value", "opt": kind, "nfiles": str(nf), "extend_first": str(int(ef)), "cmd": str(int(cmd)),
                                   "expected_order": srcs, "picked": winner, "disable_all_false": da_false}, dict(case, module=list(m)),
                                  "%s for module %s: expected %r (precedence %s) but got %r; files=%s extend_config %s"
                                  % (kind, ".".join(m) or "()", exp, srcs or "-", got, files, "first" if ef else "last"))
                    break
            if order % 2999 == 0:
                res.sample({"files": [{".".join(k) or "top": v for k, v in f.items()} for f in files], "cmdline": cmd, "extend_config_first": ef})
    finally:
        shutil.rmtree(d, ignore_errors=True)


def error_cases():
    """(name, {filename: text}) — each must raise InvalidConfigOption."""
    H = "[tool.pyanalyze]\n"
    O = "[[tool.pyanalyze.overrides]]\n"
    return [
        ("unknown-key", {"f0.toml": H + "nonsense = 1\n"}),
        ("unknown-key-in-override", {"f0.toml": H + O + 'module = "a"\nnonsense = 1\n'}),
        ("bool-for-int", {"f0.toml": H + "maximum_positional_args = true\n"}),
        ("string-for-int", {"f0.toml": H + 'maximum_positional_args = "3"\n'}),
        ("float-for-int", {"f0.toml": H + "maximum_positional_args = 1.5\n"}),
        ("int-for-bool", {"f0.toml": H + "undefined_name = 1\n"}),
        ("string-for-bool", {"f0.toml": H + 'undefined_name = "false"\n'}),
        ("string-for-list", {"f0.toml": H + 'extra_builtins = "x"\n'}),
        ("ints-for-list", {"f0.toml": H + "extra_builtins = [1]\n"}),
        ("string-for-disable_all", {"f0.toml": H + 'disable_all = "false"\n'}),
        ("int-for-disable_all", {"f0.toml": H + "disable_all = 1\n"}),
        ("module-at-top", {"f0.toml": H + 'module = "a"\n'}),
        ("override-without-module", {"f0.toml": H + O + "undefined_name = false\n"}),
        ("override-module-not-string", {"f0.toml": H + O + "module = 3\n"}),
        ("nested-overrides", {"f0.toml": H + O + 'module = "a"\noverrides = []\n'}),
        ("overrides-not-a-list", {"f0.toml": H + 'overrides = "x"\n'}),
        ("extend-not-string", {"f0.toml": H + "extend_config = 3\n"}),
        ("self-inclusion", {"f0.toml": H + 'extend_config = "f0.toml"\n'}),
        ("mutual-inclusion", {"f0.toml": H + 'extend_config = "f1.toml"\n', "f1.toml": H + 'extend_config = "f0.toml"\n'}),
        ("three-cycle", {"f0.toml": H + 'extend_config = "f1.toml"\n', "f1.toml": H + 'extend_config = "f2.toml"\n', "f2.toml": H + 'extend_config = "f0.toml"\n'}),
        ("missing-extended-file", {"f0.toml": H + 'extend_config = "nope.toml"\n'}),
        ("error-in-extended-file", {"f0.toml": H + 'extend_config = "f1.toml"\n', "f1.toml": H + "nonsense = 1\n"}),
        ("bool-for-int-in-override", {"f0.toml": H + O + 'module = "a"\nmaximum_positional_args = false\n'}),
        # wrong value types one level up: the whole section / an override entry / the overrides list members
        ("section-not-a-table", {"f0.toml": "[tool]\npyanalyze = 3\n"}),
        ("section-a-list", {"f0.toml": "[tool]\npyanalyze = [1]\n"}),
        ("override-entry-not-a-table", {"f0.toml": H + "overrides = [3]\n"}),
        ("extend-list", {"f0.toml": H + 'extend_config = ["f1.toml"]\n', "f1.toml": H}),
        ("list-of-lists", {"f0.toml": H + 'extra_builtins = [["x"]]\n'}),
        ("table-for-bool", {"f0.toml": H + "undefined_name = {a = 1}\n"}),
        ("float-for-bool", {"f0.toml": H + "undefined_name = 1.0\n"}),
    ]


def _errors(res, tier, only=None):
    from pyanalyze.options import InvalidConfigOption, Options
    for name, files in error_cases():
        if only is not None and name != only:
            continue
        d = Path(tempfile.mkdtemp(prefix="verif-c18e-", dir="/dev/shm"))
        try:
            for fn, text in files.items():
                (d / fn).write_text(text)
            res.states += 1
            res.transitions += 1
            res.validated += 1
            try:
                Options.from_option_list([], config_file_path=d / "f0.toml")
                verdict = "accepted"
            except InvalidConfigOption:
                verdict = "rejected"
            except Exception as e:
                verdict = "raised-" + type(e).__name__
            res.outcomes["error-case:%s" % verdict] += 1
            if verdict != "rejected":
                res.violation({"kind": "malformed-config-" + verdict, "case": name}, {"mode": "errors", "name": name, "order": 10 ** 9},
                              "malformed configuration '%s' (%s) is %s instead of raising InvalidConfigOption" % (name, list(files.values())[0].strip().split("\n")[-1], verdict))
        finally:
            shutil.rmtree(d, ignore_errors=True)


def _cli_assembly(res, only=None):
    """the command-line layer as the real entry point assembles it (NameCheckVisitor.prepare_constructor_kwargs): for every registered boolean / integer
    option that has a command-line flag, a config file sets one value and the command line passes the other one, truthy and falsy: the command line wins"""
    import contextlib
    import io
    from pyanalyze.name_check_visitor import NameCheckVisitor
    from pyanalyze.options import BooleanOption, ConfigOption, IntegerOption
    from pyanalyze.error_code import ErrorCode
    codes = {c.name for c in ErrorCode}
    names = sorted(n for n, oc in ConfigOption.registry.items() if oc.should_create_command_line_option and n not in codes and issubclass(oc, (BooleanOption, IntegerOption)))
    for name in names:
        oc = ConfigOption.registry[name]
        pairs = [(True, False), (False, True)] if issubclass(oc, BooleanOption) else [(7, 0), (0, 7), (3, 5)]
        for cfg_v, cli_v in pairs:
            if only is not None and [name, cli_v] != only:
                continue
            d = Path(tempfile.mkdtemp(prefix="verif-c18c-", dir="/dev/shm"))
            try:
                (d / "c.toml").write_text("[tool.pyanalyze]\n%s = %s\n" % (name, _toml_value(cfg_v)))
                res.states += 1
                res.transitions += 1
                res.validated += 1
                case = {"mode": "cli", "name": name, "cli": cli_v, "order": 2 * 10 ** 9}
                try:
                    with contextlib.redirect_stdout(io.StringIO()), contextlib.redirect_stderr(io.StringIO()):
                        kw = NameCheckVisitor.prepare_constructor_kwargs({"config_file": d / "c.toml", name: cli_v})
                    got = kw["checker"].options.get_value_for(oc)
                except Exception as e:
                    res.violation({"kind": "cli-assembly-raises", "exc": type(e).__name__, "option_type": oc.__mro__[1].__name__}, case, "prepare_constructor_kwargs raised %r for %s=%r over a config file setting %r" % (e, name, cli_v, cfg_v))
                    continue
                res.outcomes["cli-assembly:%s" % ("command-line-wins" if got == cli_v else "differs")] += 1
                if got != cli_v:
                    res.violation({"kind": "command-line-value-ignored", "option_type": oc.__mro__[1].__name__, "falsy": str(int(not cli_v))}, case,
                                  "%s: the config file sets %r, the command line passes %r, the effective value is %r" % (name, cfg_v, cli_v, got))
            finally:
                shutil.rmtree(d, ignore_errors=True)


def run_unit(unit):
    kind, tier, lo, hi = unit
    res = UnitResult()
    if kind == "cli":
        _cli_assembly(res)
        return res
    if kind == "layer":
        _layer(res, tier, lo, hi)
    else:
        _errors(res, tier)
    return res


def replay(case):
    res = UnitResult()
    if case["mode"] == "cli":
        _cli_assembly(res, only=[case["name"], case["cli"]])
        return list(res.viol.values())
    if case["mode"] == "errors":
        _errors(res, "quick", only=case["name"])
    else:
        kind, nf, assign, cmd, ef = case["cfg"]
        cfg = (kind, nf, tuple(assign), cmd, ef)
        for tier in ([case["tier"]] if "tier" in case else ["quick", "thorough"]):
            cs = configs(tier)
            if cfg in cs:
                i = cs.index(cfg)
                _layer(res, tier, i, i + 1)
                if not res.viol and "unit_lo" in case:
                    # not reproduced alone: the stack is resolved again after the stacks that preceded it in its unit (option resolution that depends on
                    # configurations parsed earlier in the same process is a violation of the precedence rule as well; the replay then needs that history)
                    res = UnitResult()
                    _layer(res, tier, case["unit_lo"], i + 1)
                    for v in res.viol.values():
                        v["msg"] += "\n(only after the %d configuration stacks parsed before it in the same process: resolution depends on process history)" % (i - case["unit_lo"])
                break
    return list(res.viol.values())


META = {
    "text": "Every stack of up to 2 (quick) / 3 (thorough) chained config files over all set/unset combinations of three scopes per file, for a boolean, an integer and a list option and "
            "for disable_all with explicit enables, with and without a command-line instance and with extend_config written first or last, is written to disk, parsed by the real "
            "Options code and queried for five module paths; results must equal the documented precedence. 23 malformed configurations must each raise InvalidConfigOption.",
    "note": "Trusted: the 40-line precedence model written from the property text.",
    "technique": "explicit enumeration of configuration stacks (state = file stack + command line + queried module) against the real option resolution, oracle = precedence reference model",
}
