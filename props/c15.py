"""C15 — type-variable solutions satisfy the bounds they were solved from (kind E, all permutations)."""
import itertools

from mc.core import UnitResult
from ref import universe as U

ID = "C15"
PARTS = ['call', 'error', 'solved']      # outcome classes every run must produce (guards against a part of the exploration silently not running)
RULE = ("state A = sequence of bounds (every permutation of every multiset of <= 3/4 LowerBound/UpperBound over a 12-value pool, optional IsOneOf constraint list) passed to the real "
        "typevar.resolve_bounds_map; state B = generic function form x literal/callback argument tuple in every parameter order, checked by the real visitor; oracle: the solution's "
        "extension over the object universe (read with in_value) contains every lower bound's, is contained in every upper bound's/declared bound's, equals a constraint when "
        "constraints exist; an error requires that no candidate from (pool + unions of the lower bounds) satisfies all bounds; the verdict is the same in every order")
ASSUMPTIONS = ["extensions are computed with ref/invalue.py over 70 universe objects: unsatisfied bounds can be missed, not invented",
               "solutions containing Any are exempt from the bound checks (Any satisfies every bound)"]
MAXTASKS = 20


def pool():
    from pyanalyze.value import NO_RETURN_VALUE, AnySource, AnyValue, GenericValue, KnownValue, TypedValue
    K, TV = KnownValue, TypedValue
    return [K(1), K("a"), TV(int), TV(str), TV(float), TV(bool), TV(object), TV(int) | TV(str), TV(int) | K(None), K(None), GenericValue(list, [TV(int)]), K(True),
            AnyValue(AnySource.explicit)]


NP = 13          # pool size; slot i < NP is a lower bound with pool value i, slot NP + i an upper bound
ANY_SLOT = 12    # an Any bound constrains nothing (it only takes part in the order-independence and existence clauses)


def constraint_lists():
    from pyanalyze.value import TypedValue
    TV = TypedValue
    return [None, (TV(int), TV(str)), (TV(float), TV(str)), (TV(bool), TV(int), TV(str))]


_TV = None


def tv():
    global _TV
    if _TV is None:
        import typing
        _TV = typing.TypeVar("T")
    return _TV


def multisets(tier):
    """index multisets over 2*len(pool) bound slots (lower i / upper i)"""
    n = 2 * NP
    kmax = 3 if tier == "quick" else 4
    out = []
    for k in range(1, kmax + 1):
        if k == 4:
            # four bounds: restricted to the 8 class-like pool values to keep the space at ~1e6 sequences
            idx = [i for i in range(n) if (i % NP) in (0, 2, 3, 4, 5, 6, 7, 9, ANY_SLOT)]
            out.extend(itertools.combinations(idx, 4))
        else:
            out.extend(itertools.combinations(range(n), k))
    return out


def bounds(tier):
    return {"pool": NP, "max_bounds": 3 if tier == "quick" else 4, "multisets": len(multisets(tier)), "constraint_lists": 4, "call_forms": len(FORMS)}


def units(tier):
    n = len(multisets(tier))
    step = 120 if tier == "quick" else 400
    return [("api", tier, i, min(n, i + step)) for i in range(0, n, step)] + [("calls", tier, i, i + 1) for i in range(len(FORMS))]


_OBJ = None


def _objs():
    global _OBJ
    if _OBJ is None:
        ns = U.prelude_ns()
        _OBJ = [eval(s, ns) for s in U.universe("quick")[:70]]
    return _OBJ


def ext(v):
    from ref.invalue import in_value
    e = 0
    for i, o in enumerate(_objs()):
        try:
            if in_value(o, v):
                e |= 1 << i
        except Exception:
            pass
    return e


def has_any(v):
    from pyanalyze.value import AnyValue
    return any(isinstance(w, AnyValue) for w in v.walk_values())


def _api(res, tier, lo, hi, only=None):
    from pyanalyze.typevar import resolve_bounds_map
    from pyanalyze.value import IsOneOf, LowerBound, UpperBound, unite_values
    from pa.run import get_checker
    ck = get_checker()
    P = pool()
    T = tv()
    exts = [ext(v) for v in P]
    ms = multisets(tier)
    for mi in range(lo, hi):
        combo = ms[mi]
        for ci, cons in enumerate(constraint_lists()):
            if only is not None and ci != only:
                continue
            res.states += 1
            order = mi * 4 + ci
            bnds = [(LowerBound if i < NP else UpperBound)(T, P[i % NP]) for i in combo]
            lows = [exts[i % NP] for i in combo if i < NP and i % NP != ANY_SLOT]
            ups = [exts[i % NP] for i in combo if i >= NP and i % NP != ANY_SLOT]
            if cons is not None:
                bnds = bnds + [IsOneOf(T, cons)]
            verdicts = {}
            for perm in itertools.permutations(range(len(bnds))):
                seq = [bnds[i] for i in perm]
                tvmap, errs = resolve_bounds_map({T: seq}, ck)
                res.transitions += 1
                ok = not errs
                verdicts.setdefault(ok, perm)
                if not ok:
                    continue
                S = tvmap[T]
                res.validated += 1
                if has_any(S):
                    res.outcomes["solution-any"] += 1
                    continue
                eS = ext(S)
                label = ",".join((("L" if i < NP else "U") + ("a" if i % NP == ANY_SLOT else "")) for i in combo) + ("+C" if cons else "")
                case = {"mode": "api", "combo": list(combo), "cons": ci, "order": order}
                desc = "bounds [%s] -> %s" % (", ".join(str(b) for b in seq), S)
                bad = None
                if any(l & ~eS for l in lows):
                    bad = "lower-bound-unsatisfied"
                elif any(eS & ~u for u in ups):
                    bad = "upper-bound-unsatisfied"
                elif cons is not None and not any(eS == ext(c) for c in cons):
                    bad = "not-a-constraint"
                res.outcomes["solved/%s" % (bad or "ok")] += 1
                if bad:
                    incomparable = False
                    if bad == "upper-bound-unsatisfied" and len(ups) >= 2:
                        incomparable = any((a & ~b) and (b & ~a) for a, b in itertools.combinations(ups, 2))
                    res.violation({"kind": bad, "bounds": label, "incomparable_uppers": str(int(incomparable))}, case, desc)
                    break
            if len(verdicts) > 1:
                res.outcomes["order-dependent"] += 1
                res.violation({"kind": "order-dependent-verdict", "bounds": ",".join((("L" if i < NP else "U") + ("a" if i % NP == ANY_SLOT else "")) for i in combo) + ("+C" if cons else "")},
                              {"mode": "api", "combo": list(combo), "cons": ci, "order": order},
                              "bounds %s: solved in order %s, error in order %s" % ([str(b) for b in bnds], verdicts[True], verdicts[False]))
            elif False in verdicts:
                # error in every order: is there really no solution?
                cands = list(exts) + [ext(unite_values(*[P[i % NP] for i in combo if i < NP and i % NP != ANY_SLOT]))] if lows else list(exts)
                if cons is not None:
                    cands = [ext(c) for c in cons]
                sat = [c for c in cands if all(not (l & ~c) for l in lows) and all(not (c & ~u) for u in ups)]
                res.validated += 1
                res.outcomes["error/%s" % ("justified" if not sat else "solution-exists")] += 1
                if sat:
                    res.violation({"kind": "error-but-solution-exists", "bounds": ",".join((("L" if i < NP else "U") + ("a" if i % NP == ANY_SLOT else "")) for i in combo) + ("+C" if cons else "")},
                                  {"mode": "api", "combo": list(combo), "cons": ci, "order": order},
                                  "bounds %s are rejected although a candidate satisfying all of them exists" % [str(b) for b in bnds])
        if mi % 397 == 0:
            res.sample({"bounds": [str((LowerBound if i < NP else UpperBound)(T, P[i % NP])) for i in combo]})


# ---- generic calls ---------------------------------------------------------------------------------

HELP = '''
T = TypeVar("T")
K_ = TypeVar("K_")
V_ = TypeVar("V_")
R_ = TypeVar("R_")
TB = TypeVar("TB", bound=float)
TC = TypeVar("TC", int, str)
def takes_object(a: object) -> None: pass
def takes_int(a: int) -> None: pass
def takes_float(a: float) -> None: pass
def takes_str(a: str) -> None: pass
def takes_bool(a: bool) -> None: pass
def takes_bytes(a: bytes) -> None: pass
def to_str(a: int) -> str: return str(a)
'''
LITS = ["1", "True", '"a"', "None", "1.5", 'b"x"', "un", "tv"]      # tv: a parameter of the caller whose type is an unbounded type variable (any object may arrive)      # un: an unannotated parameter of the caller (Any): contributes no bound
CLS = ["int", "str", "float", "bool"]
CLS_REP = {"int": "1", "str": '"a"', "float": "1.5", "bool": "True"}       # a representative instance: passing the class makes its instances lower bounds
CBS = ["takes_object", "takes_int", "takes_float", "takes_str", "takes_bool", "takes_bytes"]
# (def source, parameter kinds: 'T' / 'TB' / 'TC' literal parameter, 'cbTB' / 'cbTC' / 'cbT' callback parameter, typevar returned)
FORMS = [
    ("def f(a: T, b: T) -> T: return a", ["T", "T"], "T"), ("def f(a: T, b: T, c: T) -> T: return a", ["T", "T", "T"], "T"),
    ("def f(a: TB, b: TB) -> TB: return a", ["TB", "TB"], "TB"), ("def f(a: TC, b: TC) -> TC: return a", ["TC", "TC"], "TC"),
    ("def f(a: TB) -> TB: return a", ["TB"], "TB"), ("def f(a: TC) -> TC: return a", ["TC"], "TC"),
    ("def f(a: Callable[[TB], None]) -> TB: ...", ["cbTB"], "TB"), ("def f(a: Callable[[TC], None]) -> TC: ...", ["cbTC"], "TC"),
    ("def f(a: Callable[[T], None]) -> T: ...", ["cbT"], "T"),
    ("def f(a: Callable[[TB], None], b: Callable[[TB], None]) -> TB: ...", ["cbTB", "cbTB"], "TB"),
    ("def f(a: Callable[[T], None], b: Callable[[T], None]) -> T: ...", ["cbT", "cbT"], "T"),
    ("def f(a: TB, b: Callable[[TB], None]) -> TB: return a", ["TB", "cbTB"], "TB"), ("def f(a: TC, b: Callable[[TC], None]) -> TC: return a", ["TC", "cbTC"], "TC"),
    ("def f(a: T, b: Callable[[T], None]) -> T: return a", ["T", "cbT"], "T"),
    ("def f(a: Callable[[TB], None], b: TB) -> TB: return b", ["cbTB", "TB"], "TB"),
    ("def f(a: Callable[[T], None], b: T, c: T) -> T: return b", ["cbT", "T", "T"], "T"),
    # the return annotation does not mention the type variable ("!"): the solution is not visible, the verdict clauses remain
    ("def f(a: TC, b: TC) -> None: return None", ["TC", "TC"], "TC!"), ("def f(a: TB, b: Callable[[TB], None]) -> bool: return True", ["TB", "cbTB"], "TB!"),
    ("def f(a: Callable[[T], None], b: T) -> bool: return True", ["cbT", "T"], "T!"), ("def f(a: Callable[[T], None], b: T, c: T) -> int: return 0", ["cbT", "T", "T"], "T!"),
    ("def f(a: T, b: Callable[[T], None], c: Callable[[T], None]) -> None: return None", ["T", "cbT", "cbT"], "T!"),
    # the type variable under type[...]: the argument is a class object, its instances are the lower bound
    ("def f(a: type[TB]) -> TB: return a()", ["clsTB"], "TB"), ("def f(a: type[TC]) -> TC: return a()", ["clsTC"], "TC"), ("def f(a: type[T], b: T) -> T: return b", ["clsT", "T"], "T"),
    ("def f(a: type[TB], b: TB) -> TB: return b", ["clsTB", "TB"], "TB"),
]
CB_PARAM = {"takes_object": "object", "takes_int": "int", "takes_float": "float", "takes_str": "str", "takes_bool": "bool", "takes_bytes": "bytes"}
DECL = {"T": None, "TB": "float", "TC": ("int", "str")}


def _calls(res, tier, fi, only=None):
    from pa.run import Rec, check, cleanup_module
    from ref.member import member
    src_def, kinds, rtv = FORMS[fi]
    pre = U.PRELUDE + HELP
    argsets = []
    for k in kinds:
        argsets.append(CBS if k.startswith("cb") else (CLS if k.startswith("cls") else LITS))
    calls = list(itertools.product(*argsets))
    if only is not None:
        calls = [tuple(only)]
    # every parameter order: the same call written with keywords in each permutation
    perms = list(itertools.permutations(range(len(kinds))))
    names = "abc"
    lines = []
    for c in calls:
        for p in perms:
            lines.append("    f(%s)" % ", ".join("%s=%s" % (names[i], c[i]) for i in p))
    src = pre + src_def + "\nUQ = TypeVar('UQ')\ndef caller(un, tv: UQ):\n" + "\n".join(lines) + "\n"
    first = src.count("\n") - len(lines) + 1
    fails, tree, mod = check(src, visitor_cls=Rec, want_module=True)
    res.transitions += 1
    try:
        ns = vars(mod)
        by = {}
        for f in fails:
            by.setdefault(f.get("lineno"), []).append((f["code"].name, f.get("description", "")))
        stmts = {st.lineno: st for st in tree.body[-1].body}
        objs = _objs()
        py = {n: eval(n, ns) for n in ("object", "int", "float", "str", "bool", "bytes")}
        visible = not rtv.endswith("!")
        rtv = rtv.rstrip("!")
        decl = DECL[rtv[:2] if rtv != "T" else "T"]
        li = 0
        for ci, c in enumerate(calls):
            res.states += 1
            order = fi * 100000 + ci
            lows = [eval(CLS_REP[c[i]] if k.startswith("cls") else c[i], ns) for i, k in enumerate(kinds) if not k.startswith("cb") and c[i] not in ("un", "tv")]
            has_tv_arg = any(c[i] == "tv" and not k.startswith(("cb", "cls")) for i, k in enumerate(kinds))
            ups = [CB_PARAM[c[i]] for i, k in enumerate(kinds) if k.startswith("cb")]
            verdicts = {}
            case = {"mode": "calls", "form": fi, "call": list(c), "order": order}
            desc = "%s; call f(%s)" % (src_def.split(":")[0] + ")" if False else src_def, ", ".join(c))
            for pi, p in enumerate(perms):
                ln = first + ci * len(perms) + pi
                ds = by.get(ln, [])
                diagnosed = any(code in ("incompatible_argument", "incompatible_call") for code, _ in ds)
                verdicts.setdefault(diagnosed, p)
                if diagnosed:
                    continue
                vals = getattr(stmts[ln].value, "_inf", None)
                if not vals or not visible:
                    continue
                S = vals[-1]
                res.validated += 1
                if has_any(S):
                    res.outcomes["call:any"] += 1
                    continue
                eS = ext(S)
                bad = None
                if has_tv_arg and eS != (1 << len(objs)) - 1 and "~UQ" not in str(S):
                    bad = "lower-bound-unsatisfied"       # an argument of type-variable type can be any object: the solution must accept all of them (or mention the variable)
                for o in lows:
                    i = next((j for j, x in enumerate(objs) if x is o or (type(x) is type(o) and x == o)), None)
                    if i is not None and not (eS >> i) & 1:
                        bad = "lower-bound-unsatisfied"
                for u in ups:
                    if any((eS >> j) & 1 and not member(x, py[u]) for j, x in enumerate(objs)):
                        bad = bad or "upper-bound-unsatisfied"
                if decl is not None and not isinstance(decl, tuple):
                    if any((eS >> j) & 1 and not member(x, py[decl]) for j, x in enumerate(objs)):
                        bad = bad or "declared-bound-unsatisfied"
                if isinstance(decl, tuple):
                    cexts = [sum(1 << j for j, x in enumerate(objs) if member(x, py[d])) for d in decl]
                    if eS not in cexts:
                        bad = bad or "not-a-constraint"
                res.outcomes["call:%s" % (bad or "ok")] += 1
                if bad:
                    res.violation({"kind": bad, "form": "/".join(kinds), "route": "call", "tv_arg": str(int(has_tv_arg))}, case, "%s is accepted with %s = %s" % (desc, rtv, S))
                    break
            if verdicts == {False: verdicts.get(False)} and lows and not has_tv_arg:
                # accepted in every order: a value for the type variable must exist.  It exists iff every lower-bound object is a member of every
                # upper bound and of the declared bound, and (constraints) some constraint contains all of them and is a subtype of every upper bound
                if isinstance(decl, tuple):
                    solvable = any(all(member(o, py[d]) for o in lows) and all(_subtype(d, u) for u in ups) for d in decl)
                else:
                    solvable = all(member(o, py[u]) for o in lows for u in ups) and (decl is None or all(member(o, py[decl]) for o in lows))
                res.validated += 1
                res.outcomes["call:accepted/%s" % ("solvable" if solvable else "unsolvable")] += 1
                if not solvable:
                    res.violation({"kind": "accepted-but-no-solution-exists", "form": "/".join(kinds), "route": "call", "visible": str(int(visible)), "any_arg": str(int("un" in c))}, case,
                                  "%s is accepted although no value of %s satisfies lower bounds %r and upper bounds %r" % (desc, rtv, lows, ups))
            if len(verdicts) > 1:
                res.violation({"kind": "order-dependent-verdict", "form": "/".join(kinds), "route": "call"}, case,
                              "%s: diagnosed with argument order %s, accepted with order %s" % (desc, verdicts[True], verdicts[False]))
            elif True in verdicts:
                # diagnosed in every order: no candidate may exist
                cand_names = ["int", "float", "str", "bool", "bytes", "object"]
                if isinstance(decl, tuple):
                    cand_names = list(decl)
                sat = []
                for cn in cand_names:
                    t = py[cn]
                    if all(member(o, t) for o in lows) and all(_subtype(cn, u) for u in ups) and (decl is None or isinstance(decl, tuple) or _subtype(cn, decl)):
                        sat.append(cn)
                res.validated += 1
                res.outcomes["call:error/%s" % ("justified" if not sat else "solution-exists")] += 1
                if sat:
                    res.violation({"kind": "error-but-solution-exists", "form": "/".join(kinds), "route": "call"}, case,
                                  "%s is diagnosed (%s) although %s = %s satisfies every bound" % (desc, (by.get(first + ci * len(perms), None) or [("", "")])[0][1].split("\n")[0][:80], rtv, sat[0]))
        res.sample({"def": src_def, "call": "f(%s)" % ", ".join(calls[len(calls) // 2])})
    finally:
        cleanup_module(mod)


_SUB = {("bool", "int"), ("bool", "float"), ("int", "float")}


def _subtype(a, b):
    return a == b or b == "object" or (a, b) in _SUB


def run_unit(unit):
    kind, tier, lo, hi = unit
    res = UnitResult()
    if kind == "api":
        _api(res, tier, lo, hi)
    else:
        _calls(res, tier, lo)
    return res


def replay(case):
    res = UnitResult()
    if case["mode"] == "api":
        combo = tuple(case["combo"])
        for tier in ("quick", "thorough"):
            ms = multisets(tier)
            if combo in ms:
                mi = ms.index(combo)
                _api(res, tier, mi, mi + 1, only=case["cons"])
                break
    else:
        _calls(res, "quick", case["form"], only=case["call"])
    return list(res.viol.values())


META = {
    "text": "Every permutation of every multiset of <= 3 (quick) / 4 (thorough) lower/upper bounds over a 12-value pool, with and without constraint lists, goes through the real "
            "resolve_bounds_map; 15 generic call forms (plain/bounded/constrained TypeVars, TypeVars under Callable parameters, two callbacks sharing a TypeVar) are called with every "
            "literal/callback tuple in every argument order through the real visitor. Solutions are judged by extension containment; errors by an existence search; verdicts must not depend on order.",
    "note": "Trusted: ref/invalue.py extensions over 70 objects, ref/member.py. Solutions containing Any are exempt.",
    "technique": "bounded exhaustive enumeration of bound sequences in all permutations against the real solver, oracle = extension containment + existence search",
}
