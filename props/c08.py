"""C08 — overload resolution follows first-match and distributes over unions (kind E with declarative clauses)."""
import itertools
import re

from mc.core import UnitResult

ID = "C08"
PARTS = ['any', 'plain', 'union']      # outcome classes every run must produce (guards against a part of the exploration silently not running)
RULE = ("state = (overload set, argument type tuple): overload sets of 2 (quick) / 3 (thorough) signatures with 1-2 parameters over {int, str, None, float, Literal[1], object, Any} "
        "incl. overlapping, shadowed and mixed-arity members, distinct return classes; argument types: the vocabulary, all two-member unions, Any, with at most one "
        "union/Any argument per call; real: reveal_type(f(args)) and diagnostics from the real visitor; oracle: the three clauses of the property evaluated with subset-over-universe "
        "assignability: (1) plain args -> first accepting overload's return, diagnosed iff none; (2) one union arg -> accepted iff every member is accepted by some overload, result "
        "contains each member's own result; (3) an Any argument never selects a single overload's type when a later overload with another return type also matches")
ASSUMPTIONS = ["assignability between the seven vocabulary types is the subset relation over a separating 8-object universe (self-checked at start-up)",
               "'matches' for an Any argument: any parameter type accepts Any; the match is clean only when the parameter itself is Any"]
MAXTASKS = 40

PRE = '''from typing import overload, Any, Union, Literal, Optional
class R0: pass
class R1: pass
class R2: pass
class R3: pass
'''
PTYPES = ["int", "str", "None", "float", "Literal[1]", "object", "Any"]
P2 = ["int", "str", "None"]
ATOMS = ["int", "str", "None", "float", "Literal[1]", "object"]
UNIONABLE = ["int", "str", "None", "float", "bytes"]
_U = [1, 2, True, "a", b"b", None, 1.5, object()]


def _mem(o, t):
    if t in ("object", "Any"):
        return True
    if t == "int":
        return isinstance(o, int)
    if t == "str":
        return isinstance(o, str)
    if t == "bytes":
        return isinstance(o, bytes)
    if t == "None":
        return o is None
    if t == "float":
        return isinstance(o, (int, float))
    if t == "Literal[1]":
        return type(o) is int and o == 1
    raise ValueError(t)


def _sub(a, p):
    return all(_mem(o, p) for o in _U if _mem(o, a))


def selfcheck():
    # the universe separates the vocabulary: distinct types have distinct extensions
    ext = {t: tuple(_mem(o, t) for o in _U) for t in ATOMS + ["bytes"]}
    assert len(set(ext.values())) == len(ext), ext


def overload_sigs():
    """An overload = (param types tuple, second has default?)"""
    out = [((p,), False) for p in PTYPES]
    for p1, p2 in itertools.product(P2, P2):
        out.append(((p1, p2), False))
    for p1 in P2:
        out.append(((p1, "int"), True))
    return out


def overload_sets(tier):
    sigs = overload_sigs()
    one = [s for s in sigs if len(s[0]) == 1]
    two = [s for s in sigs if len(s[0]) == 2]
    sets = list(itertools.permutations(one, 2)) + list(itertools.permutations(two, 2))
    sets += [(a, b) for a in one[:4] for b in two[:6]] + [(b, a) for a in one[:4] for b in two[:6]]
    # mixed triples: one two-parameter overload (not applicable to a one-argument call) before, between and after two one-parameter overloads
    nb, na = (2, 3) if tier == "quick" else (4, 5)
    for b in two[:nb]:
        for a1, a2 in itertools.permutations(one[:na], 2):
            sets += [(b, a1, a2), (a1, b, a2), (a1, a2, b)]
    if tier == "thorough":
        sets += list(itertools.permutations(one, 3))
        sets += list(itertools.permutations([s for s in two if not s[1]][:6], 3))
    # variadic overloads f(*x: P): pairs of them, and one of them before / after a one-parameter overload
    var = [(("*" + p,), False) for p in ["int", "str", "None", "float"]]
    sets += list(itertools.permutations(var, 2))
    sets += [(a, v) for a in one[:4] for v in var[:3]] + [(v, a) for a in one[:4] for v in var[:3]]
    return sets


def arg_types():
    unions = ["Union[%s, %s]" % (a, b) for a, b in itertools.combinations(UNIONABLE, 2)]
    return ATOMS + ["bytes"] + unions + ["Any"]


def members(t):
    m = re.match(r"Union\[(.*), (.*)\]$", t)
    return [m.group(1), m.group(2)] if m else [t]


def calls_for(ovset):
    """argument type tuples: at most one union/Any argument"""
    ats = arg_types()
    plain = [a for a in ats if len(members(a)) == 1 and a != "Any"]
    variadic = any(s[0][0].startswith("*") for s in ovset)
    maxar = 2 if variadic else max(len(s[0]) for s in ovset)
    out = [(a,) for a in ats]
    if maxar == 2:
        for a in ats:
            for b in plain[:4]:
                out.append((a, b))
                if a not in plain:
                    out.append((b, a))
        for a in plain[:4]:
            for b in plain[4:]:
                out.append((a, b))
    # every argument tuple in three call styles: positional, all by keyword (every overload names its parameters x, y), first positional + second by keyword
    styled = []
    for c in out:
        styled.append((c, "pos"))
        if variadic:
            continue        # a variadic parameter takes no keyword
        styled.append((c, "kw"))
        if len(c) == 2:
            styled.append((c, "mix"))
    return styled


def bounds(tier):
    sets = overload_sets(tier)
    return {"overload_sets": len(sets), "set_size": "2 (+ mixed-arity triples)" if tier == "quick" else "2-3", "argument_types": len(arg_types())}


CH = 12


def units(tier):
    n = len(overload_sets(tier))
    return [(tier, i, min(n, i + CH)) for i in range(0, n, CH)]


def _accepts(ov, args):
    ptypes, has_default = ov
    if ptypes[0].startswith("*"):
        return all(_sub(a, ptypes[0][1:]) for a in args)
    if len(args) > len(ptypes):
        return False
    if len(args) < len(ptypes) and not (has_default and len(args) == len(ptypes) - 1):
        return False
    return all(_sub(a, p) for a, p in zip(args, ptypes))


def _first(ovset, args):
    for i, ov in enumerate(ovset):
        if _accepts(ov, args):
            return i
    return None


def _module(ovset, calls):
    lines = [PRE]
    for i, (ptypes, has_default) in enumerate(ovset):
        ps = ", ".join(("*x: %s" % p[1:]) if p.startswith("*") else "%s: %s%s" % ("xy"[j], p, " = 0" if (has_default and j == 1) else "") for j, p in enumerate(ptypes))
        lines.append("@overload\ndef f(%s) -> R%d: ..." % (ps, i))
    lines.append("def f(*x: object, y: object = None) -> object: return x" if any(p[0].startswith("*") for p, _ in ovset) else "def f(x: object = None, y: object = None) -> object: return x")
    ats = arg_types()
    lines.append("def run(%s) -> None:" % ", ".join("a%d: %s" % (j, t) for j, t in enumerate(ats)))
    for c, style in calls:
        names = ["a%d" % ats.index(t) for t in c]
        if style == "kw":
            names = ["%s=%s" % ("xy"[j], n) for j, n in enumerate(names)]
        elif style == "mix":
            names = [names[0], "y=" + names[1]]
        lines.append("    reveal_type(f(%s))" % ", ".join(names))
    return "\n".join(lines) + "\n"


def _desc(ovset):
    return "; ".join("f(%s)->R%d" % (", ".join(p + ("=0" if (d and j == 1) else "") for j, p in enumerate(ps)), i) for i, (ps, d) in enumerate(ovset))


def _shape(ovset):
    return "|".join(str(len(ps)) + ("d" if d else "") + ("v" if ps[0].startswith("*") else "") for ps, d in ovset)


def _run(res, tier, sets, base, only_call=None):
    from pa.run import check
    for si, ovset in enumerate(sets):
        calls = calls_for(ovset)
        if only_call is not None:
            calls = [(tuple(only_call[0]), only_call[1])]
        src = _module(ovset, calls)
        fails = check(src)
        res.transitions += 1
        first_line = src.count("\n") - len(calls) + 1
        by = {}
        for f in fails:
            by.setdefault(f.get("lineno"), []).append((f["code"].name, f.get("description", "")))
        for ci, (c, style) in enumerate(calls):
            res.states += 1
            order = (base + si) * 1000 + ci
            d = by.get(first_line + ci, [])
            rev = [x[1] for x in d if x[0] == "reveal_type"]
            err = [x for x in d if x[0] not in ("reveal_type",)]
            revealed = rev[0] if rev else ""
            got = set(re.findall(r"\bR(\d)\b", revealed))
            is_any = "Any[" in revealed
            diagnosed = bool(err)
            case = {"ovset": [[list(ps), dflt] for ps, dflt in ovset], "call": list(c), "style": style, "order": order}
            desc = "%s; call f(%s)%s" % (_desc(ovset), ", ".join(c), {"pos": "", "kw": " with every argument passed by keyword", "mix": " with the second argument passed by keyword"}[style])
            special = [a for a in c if a == "Any" or len(members(a)) > 1]
            res.validated += 1
            if not special:
                k = _first(ovset, c)
                res.outcomes["plain:%s/%s" % ("match" if k is not None else "nomatch", "diagnosed" if diagnosed else "accepted")] += 1
                if (k is None) != diagnosed:
                    res.violation({"clause": "1-verdict", "kind": "missed" if k is None else "false-alarm", "shape": _shape(ovset), "style": style}, case,
                                  "%s: %s but pyanalyze %s" % (desc, "no overload accepts the arguments" if k is None else "overload %d accepts the arguments" % k,
                                                               ("reports " + err[0][1].split("\n")[0][:100]) if diagnosed else "accepts"))
                elif k is not None and got != {str(k)}:
                    res.violation({"clause": "1-first-match", "shape": _shape(ovset), "style": style, "args": ",".join("u" if len(members(a)) > 1 else "p" for a in c)}, case,
                                  "%s: first accepting overload is %d but the call is typed %s" % (desc, k, revealed))
            elif special[0] != "Any":
                pos = c.index(special[0])
                firsts = []
                for m in members(special[0]):
                    cc = list(c)
                    cc[pos] = m
                    firsts.append(_first(ovset, tuple(cc)))
                expect_err = any(f is None for f in firsts)
                res.outcomes["union:%s/%s" % ("all-members-match" if not expect_err else "some-member-unmatched", "diagnosed" if diagnosed else "accepted")] += 1
                if expect_err != diagnosed:
                    res.violation({"clause": "2-union-verdict", "kind": "missed" if expect_err else "false-alarm", "shape": _shape(ovset), "style": style, "upos": str(pos)}, case,
                                  "%s: members resolve to %s but pyanalyze %s" % (desc, firsts, ("reports " + err[0][1].split("\n")[0][:100]) if diagnosed else "accepts (typed %s)" % revealed))
                elif not expect_err and not is_any:
                    want = {str(f) for f in firsts}
                    if not want <= got:
                        res.violation({"clause": "2-union-result", "shape": _shape(ovset), "style": style, "upos": str(pos)}, case,
                                      "%s: members resolve to overloads %s but the call is typed %s" % (desc, sorted(want), revealed))
            else:
                pos = c.index("Any")
                matching = []
                for i, ov in enumerate(ovset):
                    cc = list(c)
                    pt = ov[0][0][1:] if ov[0][0].startswith("*") else (ov[0][pos] if pos < len(ov[0]) else None)
                    cc[pos] = pt if pt is not None else "object"
                    if _accepts(ov, tuple(cc)) and pt is not None:
                        matching.append((i, pt == "Any"))
                res.outcomes["any:%d-matching/%s" % (len(matching), "diagnosed" if diagnosed else "accepted")] += 1
                if not matching:
                    if not diagnosed:
                        res.violation({"clause": "3-any-verdict", "kind": "missed", "shape": _shape(ovset), "style": style}, case, "%s: no overload can accept the call, pyanalyze accepts (typed %s)" % (desc, revealed))
                    continue
                if diagnosed:
                    res.violation({"clause": "3-any-verdict", "kind": "false-alarm", "shape": _shape(ovset), "style": style}, case,
                                  "%s: overloads %s accept an Any argument but pyanalyze reports %s" % (desc, [m[0] for m in matching], err[0][1].split("\n")[0][:100]))
                    continue
                k, clean = matching[0]
                if clean:
                    if got != {str(k)} and not is_any:
                        res.violation({"clause": "3-any-clean-first", "shape": _shape(ovset), "style": style}, case, "%s: overload %d matches Any cleanly first, call typed %s" % (desc, k, revealed))
                else:
                    later_other = [i for i, _ in matching[1:] if i != k]
                    if later_other and not is_any and len(got) == 1:
                        res.violation({"clause": "3-any-selects-one", "shape": _shape(ovset), "style": style, "later_clean": str(int(any(cl for _, cl in matching[1:])))}, case,
                                      "%s: overloads %s all match the Any argument (the first only because of Any) but the call is typed %s, a single overload's return type"
                                      % (desc, [m[0] for m in matching], revealed))
            if order % 7919 == 0:
                res.sample({"overloads": _desc(ovset), "call": "f(%s)" % ", ".join(c), "revealed": revealed, "diagnosed": diagnosed})


def run_unit(unit):
    tier, lo, hi = unit
    selfcheck()
    res = UnitResult()
    _run(res, tier, overload_sets(tier)[lo:hi], lo)
    return res


def replay(case):
    res = UnitResult()
    ovset = tuple((tuple(ps), d) for ps, d in case["ovset"])
    _run(res, "quick", [ovset], case.get("order", 0) // 1000, only_call=(case["call"], case.get("style", "pos")))
    return list(res.viol.values())


META = {
    "text": "Every (overload set, argument type tuple) of the bounded space is compiled into a module with real @overload definitions and checked by the real visitor; the revealed "
            "type and verdict are compared with the three declarative clauses of the property (first match / diagnosed iff none; union distribution; Any never selects one overload).",
    "note": "Trusted: subset-over-universe assignability on a 7-type vocabulary (universe separation self-checked).",
    "technique": "bounded exhaustive enumeration of overload sets x argument types against the real overload resolver, oracle = declarative clauses over a reference assignability table",
}
