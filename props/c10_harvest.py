"""C10, second corpus: the ~900 programs of pyanalyze's own test-suite (ref/harvest.py), rendered *fully*: the diagnostics plus, for
every expression node, the text reveal_type() would print there (recording visitor).  Three explorations, same invariant as the
generated corpus: (hsched) every single-site deviation of set-iteration order, (hseeds) hash seeds in fresh subprocesses,
(hhist) long check histories on one shared Checker against a baseline rendered in a process that has checked nothing else."""
import json
import os
import re
import subprocess
import sys

_ID = re.compile(r"id='\d+'")
# programs whose own module-level execution is time- or address-dependent (their *input* differs between runs)
# or which write process-global state themselves (one of them registers a fake module in sys.modules that another one imports)
_INHERENT = re.compile(r"datetime\.now|utcnow|time\.time\(|random\.|uuid|sys\.modules")
# reveal_type() of a value that carries a predicate constraint prints the dataclass repr of the predicate (known finding C10-F1): judged separately
_PRED = re.compile(r"<[+-]?[^<>]*predicate \w+Predicate\([^<>]*(?:<[^<>]*>[^<>]*)*\)>")
_H = None


def hcorpus():
    global _H
    if _H is None:
        from ref.harvest import harvest
        _H = [(n, s, st) for n, s, st in harvest() if not _INHERENT.search(s)]
    return _H


def _checker_for(settings, cache):
    from pa.run import make_checker
    from pyanalyze.error_code import ErrorCode
    key = json.dumps(settings, sort_keys=True)
    if key not in cache:
        cache[key] = make_checker({getattr(ErrorCode, k): v for k, v in settings.items()} if settings else None)
    return cache[key]


def render_full(src, checker, harvested=False):
    """[diagnostics, [(node key, [texts])...]] or ["EXC", class name] when the program cannot be checked (import failure)"""
    from pa.run import check, Rec, inferred_map, norm_text, diag, test_module_factory
    try:
        fails, tree = check(src, checker=checker, visitor_cls=Rec, want_tree=True, module_factory=test_module_factory() if harvested else None)
    except Exception as e:
        return ["EXC", type(e).__name__]
    # the full message (first line, detail lines such as "X has no attribute 'm'", source context), not only the one-line description
    d = sorted([diag(f)[0], diag(f)[1], diag(f)[2], _ID.sub("id='ID'", norm_text(f.get("message") or f.get("description", "")))] for f in fails)
    inf = sorted([list(k), [_ID.sub("id='ID'", norm_text(str(v))) for v in vs]] for k, vs in inferred_map(tree).items())
    return json.loads(json.dumps([d, inf]))


def first_diff(a, b):
    if a[0] == "EXC" or b[0] == "EXC":
        return "%s  !=  %s" % (a[:2], b[:2])
    for x, y in zip(a[0], b[0]):
        if x != y:
            return "diagnostic %s  !=  %s" % (str(x)[:200], str(y)[:200])
    if len(a[0]) != len(b[0]):
        return "different number of diagnostics: %d vs %d" % (len(a[0]), len(b[0]))
    for x, y in zip(a[1], b[1]):
        if x != y:
            return "reveal_type at %s: %s  !=  %s" % (x[0], str(x[1])[:200], str(y[1])[:200])
    return "different number of expression nodes"


def _mask(r):
    if r[0] == "EXC":
        return r
    return [[[c, l, co, _PRED.sub("<predicate>", m)] for c, l, co, m in r[0]], [[k, [_PRED.sub("<predicate>", t) for t in ts]] for k, ts in r[1]]]


_PROTO = re.compile(r" \(Protocol with members [^()]*\)")


def _mask2(r):
    if r[0] == "EXC":
        return r
    return [[[c, l, co, _PROTO.sub("", m)] for c, l, co, m in r[0]], [[k, [_PROTO.sub("", t) for t in ts]] for k, ts in r[1]]]


def diff_kind(a, b):
    if a[0] == "EXC" or b[0] == "EXC":
        return "exception"
    if _mask(a) == _mask(b):
        return "predicate-repr"
    if _mask2(a) == _mask2(b):
        return "protocol-members-text"
    return "diagnostics" if a[0] != b[0] else "inferred"


def show_diff(a, b):
    """first difference, preferring one outside predicate reprs"""
    ma, mb = _mask(a), _mask(b)
    return first_diff(ma, mb) if ma != mb else first_diff(a, b)


def clear_typing_caches():
    """CPython's typing module memoises subscriptions with order-insensitive keys (List[Union[int, str]] returns the object first built as
    List[Union[str, int]]); that cache belongs to the interpreter, not to pyanalyze: histories are explored with it cleared before every check
    (its effect on pyanalyze's output is demonstrated separately: known finding C10-F2)"""
    import typing
    for f in typing._cleanups:
        f()


# ---------------------------------------------------------------- schedules
def hsched(res, tier, lo, hi, nd, only=None):
    """only = (program index, policy key)"""
    S = nd.SCHED
    H = hcorpus()
    cache = {}
    for pi in range(lo, min(hi, len(H))):
        if only is not None and pi != only[0]:
            continue
        name, src, settings = H[pi]
        ck = _checker_for(settings, cache)
        S.policy.clear()
        S.reset_run()
        base = render_full(src, ck, True)
        sites = dict(S.counts)
        sizes = dict(S.sizes)
        S.reset_run()
        again = render_full(src, ck, True)
        res.transitions += 2
        case0 = {"mode": "hsched", "prog": pi, "name": name, "order": 2 * 10 ** 9 + pi * 1000}
        if again != base:
            res.violation({"kind": "h-identity-schedule-not-repeatable", "program": name}, dict(case0, policy=None),
                          "two checks of %s under the identity schedule differ: %s" % (name, show_diff(base, again)))
            continue
        if base[0] == "EXC":
            res.outcomes["hsched:unloadable"] += 1
            continue
        devs = []
        for site in sorted(sites, key=str):
            n = sizes.get(site, 2)
            pols = ["rev"] if (tier == "quick" or n == 2) else ["rev", "rot1", "swap01"]
            devs.extend({site: p} for p in pols)
        for di, dev in enumerate(devs):
            key = json.dumps(sorted((str(k), v) for k, v in dev.items()))
            if only is not None and key != only[1]:
                continue
            res.states += 1
            S.policy.clear()
            S.policy.update(dev)
            S.reset_run()
            got = render_full(src, ck, True)
            S.policy.clear()
            res.transitions += 1
            res.validated += 1
            res.outcomes["hsched:%s" % ("same" if got == base else "differs")] += 1
            if got != base:
                from props.c10 import _site_name
                res.violation({"kind": "h-schedule-dependent-output", "site": _site_name(dev), "what": diff_kind(base, got)}, dict(case0, policy=key, order=case0["order"] + di),
                              "iterating the set at %s in another order changes the output for test-suite program %s:\n%s" % (key, name, show_diff(base, got)))
    if lo < len(H):
        res.sample({"harvested_program": H[lo][0], "range": [lo, hi]})


# ---------------------------------------------------------------- seeds
HSEED_SCRIPT = r'''
import sys, json, os
junk = [object() for _ in range(int(sys.argv[2]) * 3001)]
sys.path.insert(0, sys.argv[1])
from props import c10_harvest as h
cache = {}
out = [h.render_full(src, h._checker_for(st, cache), True) for name, src, st in h.hcorpus()]
print("\n" + json.dumps(out))
'''


def hseeds(res, tier, only=None):
    root = os.path.dirname(os.path.dirname(os.path.abspath(__file__)))
    nseeds = 6 if tier == "quick" else 24
    procs = []
    for s in range(nseeds):
        if only is not None and s not in (0, only):
            continue
        env = dict(os.environ, PYTHONHASHSEED=str(s), PYTHONPATH=root, PYTHONDONTWRITEBYTECODE="1")
        procs.append((s, subprocess.Popen([sys.executable, "-c", HSEED_SCRIPT, root, str(s % 4)], stdout=subprocess.PIPE, stderr=subprocess.PIPE, env=env, text=True)))
    outs = {}
    for s, p in procs:
        o, e = p.communicate(timeout=1200)
        res.transitions += 1
        if p.returncode != 0:
            res.violation({"kind": "h-seed-run-crashes", "seed": str(s)}, {"mode": "hseeds", "seed": s, "order": 3 * 10 ** 9 + s}, "subprocess under PYTHONHASHSEED=%d failed:\n%s" % (s, e[-600:]))
            continue
        outs[s] = json.loads(o.strip().split("\n")[-1])
    if 0 not in outs:
        return
    H = hcorpus()
    for s, out in outs.items():
        if s == 0:
            continue
        for pi, (a, b) in enumerate(zip(outs[0], out)):
            res.states += 1
            res.validated += 1
            res.outcomes["hseeds:%s" % ("same" if a == b else "differs")] += 1
            if a != b:
                res.violation({"kind": "h-seed-dependent-output", "program": H[pi][0], "what": diff_kind(a, b)}, {"mode": "hseeds", "seed": s, "prog": pi, "order": 3 * 10 ** 9 + s * 1000 + pi},
                              "PYTHONHASHSEED=0 and PYTHONHASHSEED=%d render test-suite program %s differently:\n%s" % (s, H[pi][0], show_diff(a, b)))
    res.sample({"hseeds": sorted(outs), "harvested_programs": len(H), "unloadable": sum(1 for r in outs[0] if r[0] == "EXC")})


# ---------------------------------------------------------------- histories
def hhist(res, tier, firsts, in_child, only=None):
    """For every r in firsts: a process that has checked nothing checks the whole corpus on shared Checkers, starting at program r and wrapping around
    (r = -1: from the first program, r = -2: the corpus in reverse order); every rendering must equal the baseline = the program checked as the first
    one of a process.  With a start at every 12th program each program is among the first twelve writers of the caches in one history."""
    import pa.run  # noqa: F401
    H = hcorpus()
    cache = {}
    for st in sorted({json.dumps(st, sort_keys=True) for _, _, st in H}):
        _checker_for(json.loads(st), cache)          # pristine Checkers, created before any fork

    def one(pi):
        clear_typing_caches()
        return render_full(H[pi][1], _checker_for(H[pi][2], cache), True)
    idx = list(range(len(H)))
    need = set(idx) if only is None else {only[1]}
    base = {pi: in_child(lambda pi=pi: one(pi)) for pi in sorted(need)}
    res.transitions += len(base)

    def run(first):
        order = idx[::-1] if first == -2 else (idx[first:] + idx[:first] if first >= 0 else idx)
        out = {}
        for pi in order:
            r = one(pi)
            if r != base.get(pi, r):
                out[pi] = r
        return out
    for first in firsts:
        if only is not None and first != only[0]:
            continue
        bad = in_child(lambda first=first: run(first))
        res.transitions += len(H) + 1
        res.states += len(H)
        res.validated += len(H)
        res.outcomes["hhist:same"] += len(H) - len(bad)
        res.outcomes["hhist:differs"] += len(bad)
        for pi, got in sorted(bad.items()):
            if only is not None and pi != only[1]:
                continue
            res.violation({"kind": "h-history-dependent-output", "program": H[pi][0], "what": diff_kind(base[pi], got)},
                          {"mode": "hhist", "first": first, "prog": pi, "order": 4 * 10 ** 9 + (first + 2) * 1000 + pi},
                          "after the history [the corpus %s up to it] on shared Checkers, test-suite program %s renders differently than as the first program of a process:\n%s"
                          % ("in reverse order" if first == -2 else ("in order" if first < 0 else "in order starting at %s and wrapping around" % H[first][0]), H[pi][0], show_diff(base[pi], got)))
    res.sample({"history_firsts": list(firsts)[:5], "harvested_programs": len(H)})
