"""C02 — narrowing never loses the actual value and never widens (kind E)."""
import ast
import re

from mc.core import UnitResult
from ref import terms as T
from ref import universe as U

ID = "C02"
PARTS = ['if', 'match', 'matchg', 'stored', 'storedr']      # outcome classes every run must produce (guards against a part of the exploration silently not running)
RULE = ("state = (declared type V, condition c, polarity): one generated function `def f(x: V): if c: use(x) else: use(x)` (or a match statement) per pair; "
        "the narrowed value at each use is read from the real visitor; oracle: for every universe object o in V the condition is evaluated under CPython and o "
        "must belong to the value of the taken branch; nothing outside V or the tested type may belong to a narrowed value; always-true/false verdicts and Never "
        "branches must be right for every o in V")
ASSUMPTIONS = ["member()/in_value() reference models; objects whose equality with a tested literal is cross-type (True == 1, 1.0 == 1) are skipped for ==/!=/in, as the property states",
               "annotations with starred tuples are left to C13 (their source evaluation is already a recorded C13 finding)"]
MAXTASKS = 12

HELPERS = '''
def use(x: object) -> None: pass
def opaque() -> bool: ...
def is_int(x: object) -> TypeIs[int]: return isinstance(x, int)
def is_str_guard(x: object) -> TypeGuard[str]: return isinstance(x, str)
def is_a(x: object) -> TypeIs[A]: return isinstance(x, A)
'''
PRELUDE = U.PRELUDE + "from typing_extensions import TypeIs, TypeGuard\n" + HELPERS

# (condition source, tested type expression or None, equality literals or None)
CONDS = [
    ("isinstance(x, int)", "int", None), ("isinstance(x, float)", "float", None), ("isinstance(x, str)", "str", None), ("isinstance(x, bool)", "bool", None),
    ("isinstance(x, A)", "A", None), ("isinstance(x, B)", "B", None), ("isinstance(x, E)", "E", None), ("isinstance(x, (int, str))", "Union[int, str]", None),
    ("isinstance(x, tuple)", "tuple", None), ("isinstance(x, list)", "list", None), ("isinstance(x, (list, tuple))", "Union[list, tuple]", None),
    ("isinstance(x, dict)", "dict", None), ("isinstance(x, complex)", "complex", None), ("isinstance(x, bytes)", "bytes", None), ("isinstance(x, type(None))", "None", None),
    ("issubclass(x, B)", "type[B]", None), ("issubclass(x, int)", "type[int]", None), ("issubclass(x, (A, str))", "Union[type[A], type[str]]", None),
    ("x is None", "None", None), ("x is not None", "None", None), ("x is True", "Literal[True]", None), ("x is False", "Literal[False]", None),
    ("x is E.X", "Literal[E.X]", None), ("x is not E.X", "Literal[E.X]", None), ("x is not True", "Literal[True]", None), ("x is not False", "Literal[False]", None),
    ("None is x", "None", None), ("None is not x", "None", None), ("1 == x", "Literal[1]", [1]), ("E.X != x", "Literal[E.X]", []),
    ("0 < len(x)", None, None), ("1 <= len(x)", None, None), ("2 > len(x)", None, None), ("1 == len(x)", None, None), ("1 < len(x)", None, None), ("2 <= len(x)", None, None),
    ("x == 1", "Literal[1]", [1]), ("x != 1", "Literal[1]", [1]), ("x == 'a'", "Literal['a']", ["a"]), ("x != 'a'", "Literal['a']", ["a"]), ("x == E.X", "Literal[E.X]", []),
    ("x != E.X", "Literal[E.X]", []), ("x == None", "None", [None]), ("x == True", "Literal[True]", [True]), ("x == 0", "Literal[0]", [0]), ("x == ()", "tuple[()]", [()]),
    ("x == 1.5", "Literal[1.5]", [1.5]), ("x == b'a'", "Literal[b'a']", [b"a"]),
    ("x in (1, 2)", "Literal[1, 2]", [1, 2]), ("x not in (1, 2)", "Literal[1, 2]", [1, 2]), ("x in ('a',)", "Literal['a']", ["a"]), ("x in (E.X,)", "Literal[E.X]", []),
    ("x in (None, 1)", "Optional[Literal[1]]", [None, 1]), ("x not in (None,)", "None", [None]), ("x in (True, 'a')", "Literal[True, 'a']", [True, "a"]),
    # other containers on the right of `in`: a string (substring test!), list, set, dict (keys), frozenset, range
    ("x in 'ab'", "str", None), ("x not in 'ab'", "str", None), ("x in [1, 2]", "Literal[1, 2]", [1, 2]), ("x in {1, 'a'}", "Literal[1, 'a']", [1, "a"]),
    ("x not in {'a': 1, None: 2}", "Optional[Literal['a']]", ["a", None]), ("x in frozenset({1, None})", "Optional[Literal[1]]", [1, None]), ("x in range(2)", "Literal[0, 1]", [0, 1]),
    # ordering comparisons with a constant, the constant on either side
    ("x > 1", None, None), ("1 < x", None, None), ("x <= 1", None, None), ("1 >= x", None, None), ("0 < x", None, None), ("x < 1.5", None, None),
    ("x", None, None), ("not x", None, None), ("bool(x)", None, None),
    ("len(x) == 0", None, None), ("len(x) == 1", None, None), ("len(x) == 2", None, None), ("len(x) != 0", None, None), ("len(x) != 1", None, None),
    ("len(x) > 1", None, None), ("len(x) >= 1", None, None), ("len(x) < 2", None, None), ("len(x) <= 1", None, None), ("len(x) > 0", None, None),
    ("is_int(x)", "int", None), ("is_str_guard(x)", "str", None), ("is_a(x)", "A", None), ("not is_int(x)", "int", None),
    ("isinstance(x, int) and x == 1", "int", [1]), ("isinstance(x, str) or x is None", "Optional[str]", None), ("not isinstance(x, int)", "int", None),
    ("x is not None and x", "None", None), ("isinstance(x, int) or isinstance(x, str)", "Union[int, str]", None), ("not (x is None or x == 1)", "Optional[Literal[1]]", [1]),
]
# match patterns: (pattern source, tested type, literals)
PATTERNS = [
    ("int()", "int", None), ("str()", "str", None), ("A()", "A", None), ("float()", "float", None), ("bool()", "bool", None), ("tuple()", "tuple", None),
    ("1", "Literal[1]", [1]), ("'a'", "Literal['a']", ["a"]), ("None", "None", None), ("True", "Literal[True]", None), ("E.X", "Literal[E.X]", []),
    ("[a, b]", "Sequence[object]", None), ("[a, *r]", "Sequence[object]", None), ("[*r, a]", "Sequence[object]", None), ("[*r]", "Sequence[object]", None),
    ("[a, *r, b]", "Sequence[object]", None), ("[*r, a, b]", "Sequence[object]", None), ("[a, b, *r]", "Sequence[object]", None), ("[a, b, c]", "Sequence[object]", None), ("[]", "Sequence[object]", None), ("[a]", "Sequence[object]", None),
    ("{'a': v}", "Mapping[object, object]", None), ("(1, b)", "Sequence[object]", [1]), ("int() | None", "Optional[int]", None),
    ("1 | 2", "Literal[1, 2]", [1, 2]), ("[int(), str()]", "Sequence[object]", None), ("list()", "list", None), ("dict()", "dict", None),
]
EXTRA_V = ["Literal[0, False]", "Literal[1, True, None]", "tuple[int] | tuple[int, int, int]", "tuple[()] | tuple[str]", "tuple[int, int] | tuple[int, int, int] | None", "int | None", "int | str", "str | None", "float | None", "bool | None", "A | None", "A | C", "E | None", "tuple[int] | tuple[str, int]", "list[int] | None",
           "int | list[int]", "type[int] | type[str]", "bytes | str", "float | str", "tuple[int, ...] | None", "Literal[1, 'a', None]", "int | str | None", "object",
           "tuple[int, str] | None", "tuple[()] | tuple[int]", "list[int] | tuple[int, ...]", "dict[str, int] | None", "type[A] | None", "IE | str", "bool | str", "D | None", "A | int"]


def v_terms(tier):
    base = [t for t in T.terms(2) if "*tuple" not in t and t not in ("tuple", "list", "dict", "type") and "Annotated" not in t and not t.startswith("List[")]
    if tier == "quick":
        # depth-1 atoms, one representative of every depth-2 constructor per atom sort, all unions
        keep = []
        for t in base:
            m = re.match(r"(\w+)\[(.*)\]$", t)
            if not m or m.group(1) in ("Union", "Optional", "Literal", "tuple", "type") or m.group(2).split(",")[0] in ("int", "str", "None", "A"):
                keep.append(t)
        base = keep
    out = []
    for t in base + EXTRA_V:
        if t not in out:
            out.append(t)
    return out


def all_cases(tier):
    vs = v_terms(tier)
    out = []
    for v in vs:
        for i in range(len(CONDS)):
            out.append((v, "if", i))
        for i in range(len(PATTERNS)):
            out.append((v, "match", i))
    # the condition stored in a variable first; a guarded case (the guard may be false, so every object can reach `case _`)
    small = [v for v in vs if "[" not in v or v.startswith(("Optional", "Union", "tuple[int, str]", "tuple[int]", "Literal"))] + [v for v in EXTRA_V if v in vs]
    seen = set()
    for v in small:
        if v in seen:
            continue
        seen.add(v)
        for i in range(len(CONDS)):
            out.append((v, "stored", i))
            out.append((v, "storedr", i))
        for i in range(len(PATTERNS)):
            out.append((v, "matchg", i))
    return out


CHUNK = 500


def bounds(tier):
    return {"declared_types": len(v_terms(tier)), "conditions": len(CONDS), "match_patterns": len(PATTERNS), "branch_pairs": len(all_cases(tier)),
            "objects": len(U.universe("quick"))}


def units(tier):
    n = len(all_cases(tier))
    return [(tier, i, min(n, i + CHUNK)) for i in range(0, n, CHUNK)]


def _fn_src(k, v, form, ci):
    if form == "if":
        c = CONDS[ci][0]
        return "def f%d(x: %s) -> None:\n    if %s:\n        use(x)\n    else:\n        use(x)\n" % (k, v, c)
    if form == "stored":
        c = CONDS[ci][0]
        return "def f%d(x: %s) -> None:\n    ok = %s\n    if ok:\n        use(x)\n    else:\n        use(x)\n" % (k, v, c)
    if form == "storedr":
        # the tested variable may be reassigned (on one path only) between storing the condition and branching on it
        c = CONDS[ci][0]
        return ("def f%d(x: %s, y: %s) -> None:\n    ok = %s\n    if opaque():\n        x = y\n    if ok:\n        use(x)\n    else:\n        use(x)\n" % (k, v, v, c))
    if form == "matchg":
        p = PATTERNS[ci][0]
        return "def f%d(x: %s) -> None:\n    match x:\n        case %s if opaque():\n            use(x)\n        case _:\n            use(x)\n" % (k, v, p)
    p = PATTERNS[ci][0]
    return "def f%d(x: %s) -> None:\n    match x:\n        case %s:\n            use(x)\n        case _:\n            use(x)\n" % (k, v, p)


def _precise(v):
    from pyanalyze import value as V
    for w in v.walk_values():
        if isinstance(w, V.AnyValue):
            return False
        if isinstance(w, V.TypedValue) and not isinstance(w.typ, type):
            return False
        if isinstance(w, (V.CallableValue, V.TypeVarValue, V.UnboundMethodValue)):
            return False
    return True


def _special(v):
    return ",".join(sorted(set(re.findall(r"\b(NT|TD)\b", v))))


def _vshape(v):
    m = re.match(r"(\w+)\[", v)
    if "|" in v or v.startswith(("Union", "Optional")):
        return "union"
    return m.group(1) if m else ("class" if v in T.CLASSES or v in ("float", "complex", "bytes", "None", "NT", "TD", "object", "DC") else v)


def _run_cases(res, tier, cs, base):
    from pyanalyze.value import NO_RETURN_VALUE
    from pyanalyze.error_code import ErrorCode
    from pa.run import Rec, check, cleanup_module, get_checker
    from ref.invalue import Unknown, in_value
    from ref.member import Unsupported, member
    ck = get_checker("c02", settings={ErrorCode.value_always_true: True})
    src = PRELUDE + "".join(_fn_src(k, v, form, ci) for k, (v, form, ci) in enumerate(cs))
    fails, tree, mod = check(src, checker=ck, visitor_cls=Rec, want_module=True)
    res.transitions += 1
    ns = vars(mod)
    try:
        usrc = U.universe("quick")
        objs = [eval(s, ns) for s in usrc]
        funcs = {n.name: n for n in tree.body if isinstance(n, ast.FunctionDef) and re.fullmatch(r"f\d+", n.name)}
        by_line = {}
        for f in fails:
            by_line.setdefault(f.get("lineno"), []).append((f["code"].name, f.get("description", "")))
        tcache = {}
        for k, (v, form, ci) in enumerate(cs):
            res.states += 1
            order = base + k
            fn = funcs["f%d" % k]
            if form in ("if", "stored", "storedr"):
                csrc, tested, lits = CONDS[ci]
                stmt = fn.body[0] if form == "if" else (fn.body[1] if form == "stored" else fn.body[2])
                pos_node = stmt.body[0].value.args[0]
                neg_node = stmt.orelse[0].value.args[0]
                cond_code = compile(csrc, "<cond>", "eval")
                evalc = lambda o: bool(eval(cond_code, ns, {"x": o}))
                cond_line = stmt.lineno
            else:
                psrc, tested, lits = PATTERNS[ci]
                csrc = ("match " if form == "match" else "guarded match ") + psrc
                stmt = fn.body[0]
                pos_node = stmt.cases[0].body[0].value.args[0]
                neg_node = stmt.cases[1].body[0].value.args[0]
                mcode = compile("def _m(x):\n    match x:\n        case %s:\n            return True\n        case _:\n            return False\n" % psrc, "<match>", "exec")
                mns = dict(ns)
                exec(mcode, mns)
                evalc = mns["_m"]
                cond_line = stmt.cases[0].pattern.lineno
            if v not in tcache:
                tcache[v] = eval(v, ns)
            tv = tcache[v]
            tt = eval(tested, ns) if tested else None
            pos_vals = getattr(pos_node, "_inf", None)
            neg_vals = getattr(neg_node, "_inf", None)
            diags = by_line.get(cond_line, [])
            always = None
            for c_, d_ in diags:
                if c_ in ("type_always_true", "value_always_true") and csrc in ("x", "bool(x)"):
                    always = True
            if any(c_ == "internal_error" for c_, d_ in [x for l in range(fn.lineno, fn.end_lineno + 1) for x in by_line.get(l, [])]):
                res.violation({"kind": "internal_error", "cond": csrc, "v": _vshape(v)}, {"v": v, "form": form, "ci": ci, "order": order},
                              "internal_error while checking `%s` on x: %s" % (csrc, v))
                continue
            n_members = 0
            for osrc, o in zip(usrc, objs):
                try:
                    if not member(o, tv):
                        is_member = False
                    else:
                        is_member = True
                except Unsupported:
                    continue
                # --- no widening: anything in a narrowed value is in V or in the tested type
                for branch, vals in ((True, pos_vals), (False, neg_vals)):
                    if not vals or is_member:
                        continue
                    nar = vals[-1]
                    if not _precise(nar):
                        continue
                    try:
                        inside = in_value(o, nar)
                    except Unknown:
                        continue
                    res.validated += 1
                    if inside:
                        try:
                            in_tested = tt is not None and member(o, tt)
                        except Unsupported:
                            in_tested = True
                        if not in_tested:
                            res.violation({"kind": "widened", "cond": csrc, "branch": branch, "v": _vshape(v), "special": _special(v), "otype": type(o).__name__},
                                          {"v": v, "form": form, "ci": ci, "order": order},
                                          "x: %s; `%s` branch %s is narrowed to %s which contains %s, outside %s and the tested type" % (v, csrc, branch, nar, osrc, v))
                if not is_member:
                    continue
                try:
                    r = evalc(o)
                except Exception:
                    continue
                if lits is not None and ("==" in csrc or "!=" in csrc or " in " in csrc or form in ("match", "matchg")):
                    try:
                        if any((o == l) and type(o) is not type(l) for l in lits) or (lits == [] and False):
                            continue
                    except Exception:
                        continue
                    if isinstance(o, (tuple, list)) and form in ("match", "matchg") and any(isinstance(x, bool) or isinstance(x, float) for x in o):
                        continue
                n_members += 1
                vals = pos_vals if r else neg_vals
                res.validated += 1
                if form == "matchg" and r and neg_vals:
                    # the guard may be false: an object that matches the pattern can also arrive in `case _`
                    try:
                        if not any(in_value(o, nv) for nv in neg_vals):
                            res.violation({"kind": "lost", "cond": csrc, "branch": "guard-false", "v": _vshape(v), "special": _special(v), "otype": type(o).__name__, "narrowed": type(neg_vals[-1]).__name__},
                                          {"v": v, "form": form, "ci": ci, "order": order},
                                          "x: %s; `case %s if <guard>` with a false guard sends %s to `case _`, but the value there is %s" % (v, psrc, osrc, neg_vals[-1]))
                    except Unknown:
                        pass
                if always is True and not r:
                    res.violation({"kind": "always-true-wrong", "cond": csrc, "v": _vshape(v), "special": _special(v), "otype": type(o).__name__}, {"v": v, "form": form, "ci": ci, "order": order},
                                  "x: %s; `%s` is reported always true (%s) but is false for %s" % (v, csrc, diags[0][1][:80], osrc))
                if not vals:
                    # branch not visited in the checking phase: pyanalyze considers it unreachable
                    res.violation({"kind": "lost", "cond": csrc, "branch": r, "v": _vshape(v), "special": _special(v), "otype": type(o).__name__, "narrowed": "unvisited"},
                                  {"v": v, "form": form, "ci": ci, "order": order},
                                  "x: %s; `%s` is %s for %s but that branch was never visited" % (v, csrc, r, osrc))
                    continue
                try:
                    ok = any(in_value(o, nv) for nv in vals)
                except Unknown:
                    continue
                res.outcomes["%s:%s" % (form, "kept" if ok else "lost")] += 1
                if not ok:
                    nar = vals[-1]
                    res.violation({"kind": "lost", "cond": csrc, "branch": r, "v": _vshape(v), "special": _special(v), "otype": type(o).__name__, "form": form,
                                   "narrowed": "Never" if nar is NO_RETURN_VALUE else type(nar).__name__},
                                  {"v": v, "form": form, "ci": ci, "order": order},
                                  "x: %s; `%s` is %s for %s, but the value in that branch is %s" % (v, csrc, r, osrc, nar))
            if form == "storedr":
                # x may hold ANY member of V in either branch (it may have been replaced by y after the test was stored)
                mems = []
                truth = set()
                for osrc, o in zip(usrc, objs):
                    try:
                        if member(o, tv):
                            mems.append((osrc, o))
                            try:
                                truth.add(evalc(o))
                            except Exception:
                                pass
                    except Unsupported:
                        pass
                for r in truth:
                    vals = pos_vals if r else neg_vals
                    if not vals:
                        continue
                    for osrc, o in mems:
                        res.validated += 1
                        try:
                            ok = any(in_value(o, nv) for nv in vals)
                        except Unknown:
                            continue
                        if not ok:
                            res.violation({"kind": "lost", "cond": csrc, "branch": r, "v": _vshape(v), "special": _special(v), "otype": type(o).__name__, "form": "storedr-reassigned",
                                           "narrowed": "Never" if vals[-1] is NO_RETURN_VALUE else type(vals[-1]).__name__},
                                          {"v": v, "form": form, "ci": ci, "order": order},
                                          "x, y: %s; `ok = %s`, then `if opaque(): x = y`, then `if ok` (branch %s): x may hold %s (the old y), but the value there is %s" % (v, csrc, r, osrc, vals[-1]))
                            break
            if n_members:
                res.extra["pairs_with_members"] += 1
            if order % 1999 == 0:
                res.sample({"declared": v, "condition": csrc, "positive": str(pos_vals[-1]) if pos_vals else None, "negative": str(neg_vals[-1]) if neg_vals else None})
    finally:
        cleanup_module(mod)


def run_unit(unit):
    tier, lo, hi = unit
    res = UnitResult()
    _run_cases(res, tier, all_cases(tier)[lo:hi], lo)
    return res


def replay(case):
    res = UnitResult()
    _run_cases(res, "thorough", [(case["v"], case["form"], case["ci"])], case.get("order", 0))
    return list(res.viol.values())


META = {
    "text": "Every (declared type, condition) pair — 60+ conditions of all kinds listed by the property incl. boolean combinations, user TypeIs/TypeGuard and 22 match patterns — "
            "is compiled into a function, checked by the real visitor, and for every object of the 239-object universe belonging to the declared type the condition is "
            "executed under CPython and the object must be in the narrowed value of the branch taken; non-members must stay out unless they are in the tested type.",
    "note": "Trusted: ref/member.py, ref/invalue.py, CPython evaluation of the condition. Cross-type equal objects skipped for ==/!=/in as the property states.",
    "technique": "bounded exhaustive enumeration of (type, condition, polarity, object) against the real narrowing code, oracle = executing the condition + membership models",
}
