"""C14 — value algebra: unions form a semilattice; equality, hashing, substitution (kind E)."""
import itertools

from mc.core import UnitResult

ID = "C14"
RULE = ("state = triple (a, b, c) over a pool of generated Values (all triples) and pair (value, typevar map); real calls: unite_values, ==, hash, "
        "substitute_typevars, can_assign, flatten_values; oracle: the equational laws of the property + membership of universe objects via in_value")
ASSUMPTIONS = ["'equal' means a == b or equal sets of flatten_values members (the implementation's normal form distributes Annotated over unions)",
               "in_value() interprets the Value data structure only (ref/invalue.py)"]
MAXTASKS = 20


def pool(tier):
    import typing
    from pyanalyze.value import (NO_RETURN_VALUE, AnnotatedValue, AnySource, AnyValue, CallableValue, DictIncompleteValue, GenericValue, KnownValue,
                                 KVPair, MultiValuedValue, SequenceValue, SubclassValue, TypedDictEntry, TypedDictValue, TypedValue, TypeVarValue)
    from pyanalyze.signature import ANY_SIGNATURE
    K = KnownValue
    TV = TypedValue
    Tv = _TVARS()["T"]
    Uv = _TVARS()["U"]
    p = [K(1), K(True), K("a"), K(None), K([]), K({}), K((1, 2)), K(1.0), TV(int), TV(str), TV(float), TV(bool), TV(object),
         GenericValue(list, [TV(int)]), GenericValue(list, [TV(str)]), GenericValue(dict, [TV(str), TV(int)]),
         SequenceValue(tuple, [(False, TV(int)), (False, TV(str))]), SequenceValue(list, [(True, TV(int))]), SequenceValue(tuple, [(False, K(1)), (True, TV(str))]),
         DictIncompleteValue(dict, [KVPair(K("a"), TV(int))]),
         TypedDictValue({"a": TypedDictEntry(TV(int))}), SubclassValue(TV(int)), TypeVarValue(Tv), TypeVarValue(Uv, bound=TV(int)),
         NO_RETURN_VALUE, AnyValue(AnySource.explicit), AnyValue(AnySource.unreachable), AnyValue(AnySource.error),
         AnnotatedValue(TV(int), [K("meta")]), MultiValuedValue([TV(int), TV(str)]), MultiValuedValue([TV(str), TV(int)]), MultiValuedValue([K(1), K(None)]),
         AnnotatedValue(MultiValuedValue([TV(int), K(None)]), [K("m")]), GenericValue(list, [MultiValuedValue([TV(int), TV(str)])]),
         GenericValue(list, [TypeVarValue(Tv)]), MultiValuedValue([TypeVarValue(Tv), K(None)]), CallableValue(ANY_SIGNATURE),
         MultiValuedValue([TV(int), K(1)]), MultiValuedValue([K(1), TV(int)]), MultiValuedValue([K(None), TV(str), TV(int)]),
         SequenceValue(tuple, [(False, TypeVarValue(Tv)), (False, TypeVarValue(Uv, bound=TV(int)))]), K(b"a"), K(0), K(False), K(()),
         MultiValuedValue([MultiValuedValue([TV(int), TV(str)]), K(None)]), GenericValue(dict, [TypeVarValue(Tv), TypeVarValue(Tv)])]
    # every shape also in a structurally equal form built in another order, and with each non-default constructor flag
    p += [TypedDictValue({"a": TypedDictEntry(TV(int)), "b": TypedDictEntry(TV(str))}), TypedDictValue({"b": TypedDictEntry(TV(str)), "a": TypedDictEntry(TV(int))}),
          TypedDictValue({"a": TypedDictEntry(TV(int), required=False)}), TypedDictValue({"a": TypedDictEntry(TV(int), readonly=True)}),
          TypedDictValue({"a": TypedDictEntry(TV(int))}, extra_keys=TV(str)), TypedDictValue({"a": TypedDictEntry(TypeVarValue(Tv))}),
          SubclassValue(TV(int), exactly=True), SubclassValue(TypeVarValue(Tv), exactly=True), GenericValue(list, [SubclassValue(TV(int), exactly=True)]),
          DictIncompleteValue(dict, [KVPair(K("a"), TV(int), is_required=False)]), DictIncompleteValue(dict, [KVPair(TV(str), TypeVarValue(Tv), is_many=True)]),
          AnnotatedValue(TV(int), [K("m1"), K("m2")]), AnnotatedValue(TV(int), [K("m2"), K("m1")]), AnnotatedValue(TypeVarValue(Tv), [K("meta")]),
          SequenceValue(list, [(False, TypeVarValue(Tv)), (True, TV(int))])]
    # unions at the size where MultiValuedValue switches to its hashed fast path (10 members): nine hashable literals, so that uniting one more operand crosses the
    # threshold; type[...] of a generic that mentions a type variable; a function literal with and without a type-variable map
    p += [MultiValuedValue([K(i) for i in range(10, 19)]), MultiValuedValue([K(i) for i in range(10, 18)] + [K([1, 2])]), MultiValuedValue([K("s%d" % i) for i in range(9)] + [TV(bytes)]),
          SubclassValue(GenericValue(list, [TypeVarValue(Tv)])), SubclassValue(GenericValue(dict, [TV(str), TypeVarValue(Tv)]), exactly=True)]
    # values that are equal but built through different classes / objects: a function literal with and without a type-variable map, callables that differ only in the
    # underlying function object, two equal unhashable literals, NaN; type variables in places walk_values might not reach
    from pyanalyze.value import KnownValueWithTypeVars, UnpackedValue
    from pyanalyze.signature import Signature
    p += [K(_fn_a), KnownValueWithTypeVars(_fn_a, {Tv: TV(int)}), CallableValue(Signature.make([], TV(int), callable=_fn_a)), CallableValue(Signature.make([], TV(int), callable=_fn_b)),
          K([7]), K([7]), TypedDictValue({"a": TypedDictEntry(TV(int))}, extra_keys=TypeVarValue(Tv)), UnpackedValue(TypeVarValue(Tv))]
    if tier == "thorough":
        p += [K(2), K("b"), K([1]), K({"a": 1}), K(1j), K(frozenset()), TV(bytes), TV(complex), TV(list), TV(tuple), TV(dict), TV(type(None)),
              GenericValue(set, [TV(int)]), GenericValue(frozenset, [TV(str)]), GenericValue(tuple, [TV(int)]), GenericValue(list, [K(1)]),
              SequenceValue(tuple, []), SequenceValue(tuple, [(False, TV(int))]), SequenceValue(list, [(False, K(1)), (False, K("a"))]), SequenceValue(set, [(False, K(1))]),
              DictIncompleteValue(dict, [KVPair(TV(str), TV(int), is_many=True)]), DictIncompleteValue(dict, []),
              TypedDictValue({"a": TypedDictEntry(TV(int)), "b": TypedDictEntry(TV(str), required=False)}), SubclassValue(TV(str)), SubclassValue(TypeVarValue(Tv)),
              TypeVarValue(Uv, constraints=(TV(int), TV(str))), AnyValue(AnySource.inference), AnnotatedValue(TV(str), [K("meta")]), AnnotatedValue(TV(int), [K("other")]),
              AnnotatedValue(K(1), [K("meta")]), MultiValuedValue([TV(float), TV(int)]), MultiValuedValue([K("a"), K("b")]), MultiValuedValue([K("b"), K("a")]),
              MultiValuedValue([K([]), K({})]), MultiValuedValue([K({}), K([])]), MultiValuedValue([TV(int), AnyValue(AnySource.explicit)]),
              GenericValue(list, [AnyValue(AnySource.explicit)]), GenericValue(dict, [TV(str), MultiValuedValue([TV(int), K(None)])]),
              MultiValuedValue([GenericValue(list, [TV(int)]), GenericValue(list, [TV(str)])]), MultiValuedValue([K(1), K(True)]), MultiValuedValue([K(True), K(1)]),
              MultiValuedValue([K(1), K(1.0)]), K(-1), K(1.5)]
    return p


_TV = None


def _TVARS():
    global _TV
    if _TV is None:
        import typing
        _TV = {"T": typing.TypeVar("T"), "U": typing.TypeVar("U")}
    return _TV


def _fn_a():
    pass


def _fn_b():
    pass


def tv_maps():
    from pyanalyze.value import AnySource, AnyValue, KnownValue, MultiValuedValue, TypedValue, TypeVarValue
    tv = _TVARS()
    targets = [TypedValue(int), KnownValue(1), MultiValuedValue([TypedValue(int), KnownValue(None)]), AnyValue(AnySource.explicit), TypeVarValue(tv["U"], bound=TypedValue(int))]
    maps = [{}]
    for a in targets:
        maps.append({tv["T"]: a})
        maps.append({tv["U"]: a})
        for b in targets:
            maps.append({tv["T"]: a, tv["U"]: b})
    return maps


def bounds(tier):
    import pa.run  # noqa: F401
    n = len(pool(tier))
    return {"pool": n, "triples": n ** 3, "typevar_maps": 36}


def units(tier):
    import pa.run  # noqa: F401  (binds pyanalyze to $VERIF_REPO before the pool is built)
    return [(tier, i) for i in range(len(pool(tier)))]


def _eq(a, b):
    from pyanalyze.value import flatten_values
    try:
        if a == b:
            return True
    except Exception:
        return False
    fa = list(flatten_values(a))
    fb = list(flatten_values(b))
    return all(any(x == y for y in fb) for x in fa) and all(any(x == y for y in fa) for x in fb)


def _unreachable(v):
    from pyanalyze.value import AnySource, AnyValue
    return isinstance(v, AnyValue) and v.source is AnySource.unreachable


def _kind(v):
    from pyanalyze.value import MultiValuedValue
    n = type(v).__name__
    if isinstance(v, MultiValuedValue):
        return "Union(" + ",".join(sorted({type(x).__name__ for x in v.vals})) + ")"
    return n


def _objs():
    from ref import universe as U
    ns = U.prelude_ns()
    return [eval(s, ns) for s in U.universe("quick")[:120]]


_OBJS = None


def _check_a(res, tier, ai, only=None):
    from pyanalyze.value import NO_RETURN_VALUE, CanAssignError, MultiValuedValue, TypeVarValue, flatten_values, unite_values
    from pa.run import get_checker
    from ref.invalue import in_value
    global _OBJS
    if _OBJS is None:
        _OBJS = _objs()
    ck = get_checker()
    P = pool(tier)
    n = len(P)
    a = P[ai]

    def viol(law, idx, msg):
        sig = {"law": law, "kinds": "/".join(_kind(P[i]) for i in idx)}
        res.violation(sig, {"tier": tier, "idx": list(idx), "order": sum(x * n ** (2 - k) for k, x in enumerate(list(idx) + [0, 0, 0][:3 - len(idx)]))},
                      "%s: %s" % (law, msg))

    def law(name, ok):
        res.validated += 1
        res.outcomes["%s=%s" % (name, bool(ok))] += 1
        return ok

    res.states += 1
    # unary laws
    aa = unite_values(a, a)
    res.transitions += 1
    if not law("idempotent", _eq(aa, a)):
        viol("idempotent", (ai,), "unite_values(%s, %s) = %s" % (a, a, aa))
    an = unite_values(a, NO_RETURN_VALUE)
    na = unite_values(NO_RETURN_VALUE, a)
    res.transitions += 2
    if not law("never-identity", _eq(an, a) and _eq(na, a)):
        viol("never-identity", (ai,), "unite_values(%s, Never) = %s, (Never, a) = %s" % (a, an, na))
    try:
        hash(a)
        law("hashable", True)
    except TypeError as e:
        law("hashable", False)
        viol("hashable", (ai,), "hash(%s) raises %s" % (a, e))
    # substitution
    # type variables are looked for through walk_values and, independently, in the printed form (a value may hold one where walk_values does not go)
    def shown(v):
        return str(v).split(" with typevars ")[0]       # the map printed by KnownValueWithTypeVars is not part of the value
    has_tv = any(isinstance(v, TypeVarValue) for v in a.walk_values()) or "~T" in shown(a)
    for mi, m in enumerate(tv_maps()):
        s = a.substitute_typevars(m)
        res.transitions += 1
        if not has_tv:
            if not law("subst-identity", _eq(s, a)):
                viol("subst-identity", (ai,), "%s.substitute_typevars(%s) = %s" % (a, m, s))
        else:
            left = [v for v in s.walk_values() if isinstance(v, TypeVarValue) and v.typevar in m
                    and not any(isinstance(t, TypeVarValue) and t.typevar is v.typevar for tgt in m.values() for t in tgt.walk_values())]
            if not left and "~T" in shown(s) and any(str(k) == "~T" for k in m) and not any("~T" in str(t) for t in m.values()):
                left = ["~T (only visible in the printed value: walk_values() does not reach it)"]
            if not law("subst-replaces-all", not left):
                viol("subst-replaces-all", (ai,), "%s.substitute_typevars(%s) = %s still contains %s" % (a, m, s, left[0]))
    for bi in range(n):
        if only is not None and len(only) > 1 and bi != only[1]:
            continue
        b = P[bi]
        res.states += 1
        ab = unite_values(a, b)
        ba = unite_values(b, a)
        res.transitions += 2
        if not law("commutative", _eq(ab, ba)):
            viol("commutative", (ai, bi), "unite_values(%s, %s) = %s but reversed = %s" % (a, b, ab, ba))
        eq = False
        try:
            eq = a == b
        except Exception as e:
            viol("eq-raises", (ai, bi), "%s == %s raises %r" % (a, b, e))
        if eq:
            try:
                if not law("eq-implies-hash", hash(a) == hash(b)):
                    viol("eq-implies-hash", (ai, bi), "%s == %s but hashes differ" % (a, b))
            except TypeError:
                pass
            if not law("equal-merged", not isinstance(ab, MultiValuedValue) or _eq(ab, a)):
                viol("equal-merged", (ai, bi), "%s == %s but unite_values keeps both: %s" % (a, b, ab))
        if not law("flat", not (isinstance(ab, MultiValuedValue) and any(isinstance(v, MultiValuedValue) for v in ab.vals))):
            viol("flat", (ai, bi), "unite_values(%s, %s) = %s nests a union" % (a, b, ab))
        for x in (a, b):
            r = ab.can_assign(x, ck)
            res.transitions += 1
            if not law("accepts-operand", not isinstance(r, CanAssignError)):
                viol("accepts-operand", (ai, bi), "unite_values(%s, %s) = %s does not accept %s" % (a, b, ab, x))
        # members of the union are exactly the members of the operands
        for o in _OBJS:
            if _unreachable(a) or _unreachable(b):
                break       # Any[unreachable] marks dead code and is dropped from unions on purpose; it has no members to preserve
            try:
                lhs = in_value(o, ab)
                rhs = in_value(o, a) or in_value(o, b)
            except Exception:
                continue
            res.validated += 1
            if lhs != rhs:
                law("members", False)
                viol("members", (ai, bi), "object %r: in union(%s) = %s but in operands = %s (a=%s, b=%s)" % (o, ab, lhs, rhs, a, b))
                break
        # substitution commutes with uniting
        for m in tv_maps()[1::7]:
            l = unite_values(a, b).substitute_typevars(m)
            r = unite_values(a.substitute_typevars(m), b.substitute_typevars(m))
            res.transitions += 2
            if not law("subst-commutes", _eq(l, r)):
                viol("subst-commutes", (ai, bi), "(%s | %s)[%s] = %s but uniting the substituted operands gives %s" % (a, b, m, l, r))
        for ci in range(n):
            if only is not None and len(only) > 2 and ci != only[2]:
                continue
            c = P[ci]
            res.states += 1
            l = unite_values(ab, c)
            r = unite_values(a, unite_values(b, c))
            flat3 = unite_values(a, b, c)
            res.transitions += 3
            if not law("associative", _eq(l, r) and _eq(l, flat3)):
                viol("associative", (ai, bi, ci), "(%s | %s) | %s = %s but a | (b | c) = %s, unite(a,b,c) = %s" % (a, b, c, l, r, flat3))
    res.sample({"a": str(a), "b": str(P[(ai * 5 + 1) % n]), "united": str(unite_values(a, P[(ai * 5 + 1) % n]))}, limit=1)


def run_unit(unit):
    tier, ai = unit
    res = UnitResult()
    _check_a(res, tier, ai)
    return res


def replay(case):
    res = UnitResult()
    _check_a(res, case["tier"], case["idx"][0], only=case["idx"])
    return list(res.viol.values())


META = {
    "text": "All triples over a pool of 48 (quick) / 92 (thorough) generated Values (literals incl. unhashable ones, typed, generic, sequence, dict-incomplete, TypedDict, "
            "callable, annotated, subclass, typevars, nested unions in both member orders) x 36 type-variable maps are pushed through the real unite_values, ==, hash, "
            "substitute_typevars and can_assign; every law of the property is evaluated on every element.",
    "note": "Trusted: ref/invalue.py membership reader; equality up to flatten_values members.",
    "technique": "bounded exhaustive enumeration of value triples against the real value algebra, oracle = equational laws + membership model",
}
