"""C05 — argument-to-parameter binding agrees with CPython (kind E).

Space: every def signature with <= N parameters (all kinds, all default patterns)
x every call shape (positionals, keyword subsets, *tuple-literal, **dict-literal),
plus star-arguments of unknown length.  Oracle: the real call."""
import itertools
import re

from mc.core import UnitResult
from ref import sigs as S

ID = "C05"
PARTS = ['binds', 'raises', 'unk']      # outcome classes every run must produce (guards against a part of the exploration silently not running)
RULE = ("state = (signature, call shape); signatures: all valid parameter lists over po/pk/*args/ko/**kw x default patterns; "
        "calls: npos x keyword subsets over (parameter names + z) x *() *(0,) *(0,0) x **{} **{first kw} **{z}; "
        "unknown-length: *xs (list[int], tuple[int,...]) and **kw (dict[str,int]); oracle = the real call raises TypeError")
ASSUMPTIONS = ["CPython 3.12 argument binding is the specification", "arguments are int literals, parameters are unannotated"]
MAXTASKS = 40

BOUNDS = {
    "quick": dict(max_params=4, max_pos=4, max_kw=3, unk_params=3),
    "thorough": dict(max_params=5, max_pos=4, max_kw=4, unk_params=4, six=True),
}
# thorough additionally takes every signature with exactly 6 parameters (1 462 of them) with the call alphabet <= 4 positionals, <= 3 keywords, star/star-star literals, plus <= 6 positionals with <= 2 keywords without star literals


def bounds(tier):
    return BOUNDS[tier]


def units(tier):
    b = BOUNDS[tier]
    n = len(S.signatures(b["max_params"]))
    step = 8 if tier == "quick" else 6
    out = [("known", tier, i, min(n, i + step)) for i in range(0, n, step)]
    m = len(S.signatures(b["unk_params"]))
    out += [("unk", tier, i, min(m, i + 12)) for i in range(0, m, 12)]
    if b.get("six"):
        n6 = len(_six())
        out += [("six", tier, i, min(n6, i + 8)) for i in range(0, n6, 8)]
    return out


_SIX = None


def _six():
    global _SIX
    if _SIX is None:
        _SIX = [p for p in S.signatures(6) if len(p) == 6]
    return _SIX


def _run_six(res, tier, lo, hi):
    sigs = _six()
    for si in range(lo, hi):
        params = sigs[si]
        shapes = S.call_shapes(params, 4, 3, stars=True)
        seen = set(shapes)
        shapes = shapes + [sh for sh in S.call_shapes(params, 6, 2, stars=False) if sh not in seen]
        hdr = "def f(%s): pass\n" % S.render_params(params)
        ns = {}
        exec(hdr, ns)
        f = ns["f"]
        src = hdr + "def caller():\n" + "".join("    " + S.render_call("f", sh) + "\n" for sh in shapes)
        by_line = _check_module(src)
        res.transitions += 1
        for j, sh in enumerate(shapes):
            res.states += 1
            _judge_known(res, params, sh, f, by_line.get(3 + j, []), order=2 * 10 ** 9 + si * 1000 + j)


def _classify_cpy(msg):
    for pat, name in [("multiple values", "multiple-values"), ("missing", "missing"), ("unexpected keyword", "unexpected-kw"),
                      ("positional-only arguments passed as keyword", "posonly-as-kw"), ("positional argument", "too-many-pos")]:
        if pat in msg:
            return name
    return "other" if msg else "binds"


def _classify_pa(descs):
    if not descs:
        return "accepted"
    from pa.run import norm_text
    d = norm_text(descs[0])
    d = re.sub(r"'[^']*'", "'_'", d)
    d = re.sub(r"\d+", "N", d)
    return d.split("\n")[0][:60]


def _check_module(src):
    from pa.run import check
    fails = check(src)
    by_line = {}
    for f in fails:
        by_line.setdefault(f.get("lineno"), []).append((f["code"].name, f.get("description", "")))
    return by_line


def _known_case(params, shape):
    hdr = "def f(%s): pass\n" % S.render_params(params)
    src = hdr + "def caller():\n    " + S.render_call("f", shape) + "\n"
    return src


def _judge_known(res, params, shape, f, diags, order):
    binds, msg = S.real_call_binds(f, shape)
    codes = [c for c, _ in diags]
    diagnosed = "incompatible_call" in codes
    other = [c for c in codes if c != "incompatible_call"]
    res.validated += 1
    res.outcomes["%s/%s" % ("binds" if binds else "raises", "diagnosed" if diagnosed else "accepted")] += 1
    if other:
        sig = {"kind": "unexpected-code", "codes": ",".join(sorted(set(other)))}
        res.violation(sig, {"mode": "known", "params": params, "shape": shape, "order": order},
                      "unexpected diagnostic %s on %s for def f(%s)" % (other, S.render_call("f", shape), S.render_params(params)))
    if binds != (not diagnosed):
        npos, kws, st, sk = shape
        sig = {
            "kind": "missed" if not binds else "false-alarm",
            "cpython": _classify_cpy(msg),
            "pyanalyze": _classify_pa([d for c, d in diags if c == "incompatible_call"]),
            "star": "none" if st is None else "star",
            "starkw": "none" if sk is None else ("empty" if not sk else "keys"),
        }
        res.violation(sig, {"mode": "known", "params": params, "shape": shape, "order": order},
                      "def f(%s); call %s: CPython %s, pyanalyze %s"
                      % (S.render_params(params), S.render_call("f", shape), ("binds" if binds else "raises TypeError: " + msg),
                         ("reports " + diags[0][1].split("\n")[0] if diagnosed else "accepts")))


def _run_known(res, tier, lo, hi):
    b = BOUNDS[tier]
    allsigs = S.signatures(b["max_params"])
    for si in range(lo, hi):
        params = allsigs[si]
        shapes = S.call_shapes(params, b["max_pos"], b["max_kw"])
        hdr = "def f(%s): pass\n" % S.render_params(params)
        ns = {}
        exec(hdr, ns)
        f = ns["f"]
        CH = 700
        for c0 in range(0, len(shapes), CH):
            chunk = shapes[c0:c0 + CH]
            src = hdr + "def caller():\n" + "".join("    " + S.render_call("f", sh) + "\n" for sh in chunk)
            by_line = _check_module(src)
            res.transitions += 1
            for j, sh in enumerate(chunk):
                res.states += 1
                _judge_known(res, params, sh, f, by_line.get(3 + j, []), order=si * 100000 + c0 + j)
        if si % 40 == 0:
            res.sample({"def": "def f(%s)" % S.render_params(params), "call": S.render_call("f", shapes[len(shapes) // 2])})


# ---- star-arguments of unknown length -------------------------------------

UNK_STAR = [None, "xs", "ts"]      # xs: list[int], ts: tuple[int, ...]
UNK_KW = [None, "dk"]              # dk: dict[str, int]


def _unk_shapes(params, max_pos, max_kw):
    names = [n for k, n, d in params if k in ("po", "pk", "ko")] + ["z"]
    out = []
    for npos in range(0, max_pos + 1):
        for r in range(0, max_kw + 1):
            for kws in itertools.combinations(names, r):
                for st in UNK_STAR:
                    for sk in UNK_KW:
                        if st is None and sk is None:
                            continue
                        out.append((npos, kws, st, sk))
                        if st is not None and npos <= 2:
                            # positional arguments written after the star argument: f(0, *xs, 0, 0)
                            for npost in (1, 2):
                                out.append((npos, kws, st, sk, npost))
    out.sort(key=lambda s: s[0] + len(s[1]) + (s[2] is not None) + (s[3] is not None) + (s[4] if len(s) > 4 else 0))
    return out


def _render_unk(shape):
    npos, kws, st, sk = shape[:4]
    npost = shape[4] if len(shape) > 4 else 0
    parts = ["0"] * npos
    if st:
        parts.append("*" + st)
    parts.extend(["0"] * npost)
    parts.extend("%s=0" % k for k in kws)
    if sk:
        parts.append("**" + sk)
    return "f(%s)" % ", ".join(parts)


def _expansions(f, params, shape):
    """(some expansion binds, some expansion with every star-arg non-empty binds)"""
    npos, kws, st, sk = shape[:4]
    npos += shape[4] if len(shape) > 4 else 0          # positionals after the star argument extend the same positional sequence
    names = [n for k, n, d in params if k in ("po", "pk", "ko")] + ["z", "y"]
    any_binds = False
    nonempty_binds = False
    star_lens = range(0, 5) if st else [None]
    if sk:
        kwsets = [ks for r in range(0, 5) for ks in itertools.combinations(names, r)]
    else:
        kwsets = [None]
    for sl in star_lens:
        for ks in kwsets:
            args = [0] * (npos + (sl or 0))
            try:
                if ks is None:
                    f(*args, **{k: 0 for k in kws})
                else:
                    f(*args, **{k: 0 for k in kws}, **{k: 0 for k in ks})
                ok = True
            except TypeError:
                ok = False
            if ok:
                any_binds = True
                if (sl is None or sl >= 1) and (ks is None or len(ks) >= 1):
                    nonempty_binds = True
    return any_binds, nonempty_binds


def _judge_unk(res, params, shape, f, diags, order):
    codes = [c for c, _ in diags]
    diagnosed = "incompatible_call" in codes
    any_binds, nonempty_binds = _expansions(f, params, shape)
    res.validated += 1
    res.outcomes["unk:any=%d,nonempty=%d/%s" % (any_binds, nonempty_binds, "diagnosed" if diagnosed else "accepted")] += 1
    bad = None
    if not diagnosed and not any_binds:
        bad = "accepted-but-no-expansion-binds"
    elif diagnosed and nonempty_binds:
        bad = "rejected-but-nonempty-expansion-binds"
    other = [c for c in codes if c != "incompatible_call"]
    if other:
        res.violation({"kind": "unexpected-code", "codes": ",".join(sorted(set(other)))},
                      {"mode": "unk", "params": params, "shape": shape, "order": order},
                      "unexpected diagnostic %s on %s" % (other, _render_unk(shape)))
    if bad:
        npos, kws, st, sk = shape[:4]
        sig = {"kind": bad, "pyanalyze": _classify_pa([d for c, d in diags if c == "incompatible_call"]),
               "star": st or "none", "starkw": sk or "none", "after_star": str(shape[4] if len(shape) > 4 else 0)}
        res.violation(sig, {"mode": "unk", "params": params, "shape": shape, "order": order},
                      "def f(%s); call %s with xs: list[int], ts: tuple[int, ...], dk: dict[str, int]: %s (pyanalyze: %s)"
                      % (S.render_params(params), _render_unk(shape), bad, diags[0][1].split("\n")[0] if diagnosed else "accepts"))


UNK_HDR = "def caller(xs: list[int], ts: tuple[int, ...], dk: dict[str, int]):\n"


def _run_unk(res, tier, lo, hi):
    b = BOUNDS[tier]
    allsigs = S.signatures(b["unk_params"])
    for si in range(lo, hi):
        params = allsigs[si]
        shapes = _unk_shapes(params, 3, 2)
        hdr = "def f(%s): pass\n" % S.render_params(params)
        ns = {}
        exec(hdr, ns)
        f = ns["f"]
        src = hdr + UNK_HDR + "".join("    " + _render_unk(sh) + "\n" for sh in shapes)
        by_line = _check_module(src)
        res.transitions += 1
        for j, sh in enumerate(shapes):
            res.states += 1
            _judge_unk(res, params, sh, f, by_line.get(3 + j, []), order=10**9 + si * 10000 + j)
        if si % 60 == 0:
            res.sample({"def": "def f(%s)" % S.render_params(params), "call": _render_unk(shapes[len(shapes) // 2])})


def run_unit(unit):
    mode, tier, lo, hi = unit
    res = UnitResult()
    if mode == "known":
        _run_known(res, tier, lo, hi)
    elif mode == "six":
        _run_six(res, tier, lo, hi)
    else:
        _run_unk(res, tier, lo, hi)
    return res


def replay(case):
    res = UnitResult()
    params = tuple(tuple(p) for p in case["params"])
    sh = case["shape"]
    shape = (sh[0], tuple(sh[1]), sh[2], None if sh[3] is None else (tuple(sh[3]) if case["mode"] == "known" else sh[3])) + tuple(sh[4:])
    hdr = "def f(%s): pass\n" % S.render_params(params)
    ns = {}
    exec(hdr, ns)
    if case["mode"] == "known":
        src = hdr + "def caller():\n    " + S.render_call("f", shape) + "\n"
        by_line = _check_module(src)
        _judge_known(res, params, shape, ns["f"], by_line.get(3, []), case.get("order", 0))
    else:
        src = hdr + UNK_HDR + "    " + _render_unk(shape) + "\n"
        by_line = _check_module(src)
        _judge_unk(res, params, shape, ns["f"], by_line.get(3, []), case.get("order", 0))
    return list(res.viol.values())

META = {
    "text": "Every (signature, call shape) pair in the bounded product space is checked by the real pyanalyze and executed as a real call; "
            "quick: all 427 signatures with <=4 parameters x all call shapes with <=4 positionals, <=3 keywords, star/double-star literals (about 5.6e5 calls) "
            "plus unknown-length star arguments; thorough: <=5 parameters, <=4 keywords. Exhaustive within the bound, so a dropped or swapped branch of the binder "
            "that affects any shape within it is seen.",
    "note": "Trusted: CPython 3.12 binding as executed; arguments are int literals and parameters unannotated (types are C06's subject); unknown-length expansions enumerated up to length 4.",
    "technique": "bounded exhaustive enumeration (signatures x call shapes) against the real binder, oracle = executing the call under CPython",
}
