"""C20 — type evaluation functions follow their specification (kind E with reference interpreter)."""
import itertools
import sys
import re

from mc.core import UnitResult

ID = "C20"
PARTS = ['atom', 'union', 'v-atom', 'v-union']      # outcome classes every run must produce (guards against a part of the exploration silently not running)
RULE = ("state = (evaluator body, call): bodies = nested if/elif/else (depth <= 2) whose tests are and/or/not combinations of the primitive conditions of docs/type_evaluation.md "
        "(is_of_type with and without exclude_any=False, is / is not / == / != constants, is_provided / is_positional / is_keyword of a positional-or-keyword and of a keyword-only "
        "parameter, version and platform checks), leaves return a type / show_error / pass; calls = every argument kind for y and k (omitted, positional, keyword, *args, **kwargs, "
        "both) x argument types (literals, classes, Any, two- and three-member unions incl. unions with Any); real: reveal_type(f(...)) and incompatible_call diagnostics; "
        "oracle: a direct interpreter of the specification for non-union arguments, and the union law (result and errors of a union argument = union over its members)")
ASSUMPTIONS = ["the reference interpreter (ref/evalspec in this file, 60 lines) implements docs/type_evaluation.md for atomic argument types; assignability between atoms is a fixed table",
               "for a non-literal class argument compared with a constant (x == 1 with x: int) the spec is silent: only the union law is checked there"]
MAXTASKS = 20

PRE = '''import sys
from typing import Union, Any, Literal, Optional
from pyanalyze.extensions import evaluated, is_provided, is_of_type, show_error, is_keyword, is_positional
'''
RETS = ["list[int]", "list[str]", "list[bytes]", "list[None]"]
XPRIMS = ["is_of_type(x, int)", "is_of_type(x, str)", "is_of_type(x, None)", "is_of_type(x, Literal[1])", "is_of_type(x, int, exclude_any=False)", "is_of_type(x, str, exclude_any=False)",
          "x is None", "x is not None", "x == 1", 'x != "a"', "is_of_type(x, Union[int, None])"]
KPRIMS = ["is_provided(y)", "is_positional(y)", "is_keyword(y)", "is_provided(k)", "is_keyword(k)", "is_positional(k)", "sys.version_info >= (3, 0)", 'sys.platform == "nope"']
# version and platform tests (PEP 484 forms) around the running interpreter: every operator against (major, minor), (major, minor, 0) and the next minor; evaluated by Python itself
_VMM = sys.version_info[:2]
VPRIMS = (["sys.version_info %s (%d, %d)" % (op, _VMM[0], _VMM[1]) for op in (">", ">=", "<", "<=", "==", "!=")]
          + ["sys.version_info %s (%d, %d, 0)" % (op, _VMM[0], _VMM[1]) for op in (">=", "<", ">")]
          + ["sys.version_info %s (%d, %d)" % (op, _VMM[0], _VMM[1] + 1) for op in (">=", "<")]
          + ["sys.platform != %r" % sys.platform, "sys.platform == %r" % sys.platform, "sys.platform != 'nope'"])
ATOMS = ["int", "str", "None", "Literal[1]", "Literal['a']", "bool", "Any"]
UNIONS = ["Union[int, str]", "Union[int, None]", "Union[str, None]", "Union[Literal[1], Literal['a']]", "Union[Literal[1], None]", "Union[int, str, None]", "Union[Literal[1], Literal['a'], None]",
          "Union[Any, None]", "Union[Any, int]", "Union[bool, str]"]
# (call suffix after the x argument, kind of y, kind of k)
KINDS = [("", "DEFAULT", "DEFAULT"), (", 1", "POSITIONAL", "DEFAULT"), (", y=1", "KEYWORD", "DEFAULT"), (", k=1", "DEFAULT", "KEYWORD"), (", 1, k=1", "POSITIONAL", "KEYWORD"),
         (", *a", "UNKNOWN", "DEFAULT"), (", **kwd", "UNKNOWN", "UNKNOWN"), (", *a, **kwd", "UNKNOWN", "UNKNOWN"), (", 1, **kwd", "POSITIONAL", "UNKNOWN"), (", y=1, **kwd", "KEYWORD", "UNKNOWN"),
         (", *a, k=1", "UNKNOWN", "KEYWORD")]


def conditions(tier):
    prims = XPRIMS + KPRIMS
    out = list(prims) + ["not %s" % p for p in prims] + list(VPRIMS) + ["%s and %s" % (v, XPRIMS[0]) for v in VPRIMS[:6]] + ["%s or %s" % (XPRIMS[1], v) for v in VPRIMS[:6]]
    pairs = list(itertools.permutations(XPRIMS[:6], 2)) + [(a, b) for a in XPRIMS[:4] for b in KPRIMS[:5]] + [(b, a) for a in XPRIMS[:4] for b in KPRIMS[:5]]
    if tier == "thorough":
        pairs = list(itertools.permutations(prims, 2))
    for a, b in pairs:
        out.append("%s or %s" % (a, b))
        out.append("%s and %s" % (a, b))
        out.append("not (%s or %s)" % (a, b))
    return out


def bodies(tier):
    cs = conditions(tier)
    out = []
    for c in cs:
        out.append("    if %s:\n        return %s\n    else:\n        return %s" % (c, RETS[0], RETS[1]))
        out.append("    if %s:\n        show_error('E1')\n        return %s\n    return %s" % (c, RETS[0], RETS[1]))
    base = cs[:14] if tier == "quick" else cs[:40]
    for c1, c2 in itertools.product(base, base):
        if c1 != c2:
            out.append("    if %s:\n        return %s\n    elif %s:\n        show_error('E2')\n        return %s\n    else:\n        return %s" % (c1, RETS[0], c2, RETS[1], RETS[2]))
    # two if statements in sequence (not elif): the second one runs for the members that did not return from the first
    for c1, c2 in itertools.product(base[:10], base[:10]):
        out.append("    if %s:\n        return %s\n    if %s:\n        show_error('E4')\n        return %s\n    return %s" % (c1, RETS[0], c2, RETS[1], RETS[2]))
    for c1, c2 in itertools.product(base[:8], base[:8]):
        if c1 != c2:
            out.append("    if %s:\n        if %s:\n            return %s\n        else:\n            show_error('E3')\n            pass\n    else:\n        return %s\n    return %s"
                       % (c1, c2, RETS[0], RETS[1], RETS[3]))
    return out


def bounds(tier):
    return {"bodies": len(bodies(tier)), "bodies_two_parameter_variadic_family": len(v_bodies(tier)), "calls_per_body_second_family": sum(len(V_T) ** (2 if c[1] else 1) for c in V_CALLS), "conditions": len(conditions(tier)), "argument_types": len(ATOMS) + len(UNIONS), "argument_kind_patterns": len(KINDS)}


CH = 12


def units(tier):
    n = len(bodies(tier))
    nv = len(v_bodies(tier))
    return [(tier, i, min(n, i + CH)) for i in range(0, n, CH)] + [("v", tier, i, min(nv, i + 6)) for i in range(0, nv, 6)]


# ---- reference interpreter of the specification (atomic argument types only) ---------------------------

_SUB = {("bool", "int"), ("Literal[1]", "int"), ("Literal['a']", "str"), ("Literal[0]", "int")}


def _compat(a, t, exclude_any):
    """is `a` compatible with annotation t?"""
    if t.startswith("Union["):
        return any(_compat(a, m.strip(), exclude_any) for m in t[6:-1].split(","))
    if a == "Any":
        return (not exclude_any) or t == "Any"
    return a == t or (a, t) in _SUB


class Unspecified(Exception):
    pass


def _prim(p, env):
    m = re.match(r"is_of_type\((x|z), (.*?)(, exclude_any=False)?\)$", p)
    if m:
        if env[m.group(1)] == "?":
            raise Unspecified()        # the type of a parameter whose argument kind is UNKNOWN
        return _compat(env[m.group(1)], m.group(2), m.group(3) is None)
    m = re.match(r"(x|z) (is not|is|==|!=) (.*)$", p)
    if m:
        var, op, const = m.groups()
        lit = "None" if const == "None" else "Literal[%s]" % const.replace('"', "'")
        a = env[var]
        if a == "?":
            raise Unspecified()
        if a in ("int", "str", "bool") :
            raise Unspecified()        # a non-literal class against a constant: the spec does not say whether the comparison can be decided
        r = _compat(a, lit, True)
        return r if op in ("is", "==") else not r
    m = re.match(r"is_(provided|positional|keyword)\((y|k|z|args|kwargs)\)$", p)
    if m:
        kind = env.kinds[m.group(2)] if hasattr(env, "kinds") else env[m.group(2)]
        return {"provided": kind in ("POSITIONAL", "KEYWORD"), "positional": kind == "POSITIONAL", "keyword": kind == "KEYWORD"}[m.group(1)]
    if p.startswith(("sys.version_info", "sys.platform")):
        return bool(eval(p, {"sys": sys}))
    raise ValueError(p)


def _cond(c, env):
    """returns (truth value, environment if true, environment if false).  An Any argument that passes
    is_of_type(x, T, exclude_any=False) is narrowed to T where the test is known to hold (the spec applies normal narrowing rules):
    in the rest of an `and` chain, inside the branch, and - through `not` - in the following elif/else branches."""
    c = c.strip()
    m = re.match(r"not \((.*)\)$", c)
    if m:
        v, et, ef = _cond(m.group(1), env)
        return (not v), ef, et
    if " or " in c and not c.startswith("not ("):
        cur = env
        for p in c.split(" or "):
            v, et, ef = _cond(p, cur)
            if v:
                return True, et, env
            cur = ef
        return False, env, cur
    if " and " in c and not c.startswith("not ("):
        cur = env
        for p in c.split(" and "):
            v, et, ef = _cond(p, cur)
            if not v:
                return False, env, ef if p == c.split(" and ")[0] else env
            cur = et
        return True, cur, env
    if c.startswith("not "):
        v, et, ef = _cond(c[4:], env)
        return (not v), ef, et
    v = _prim(c, env)
    m = re.match(r"is_of_type\((x|z), (\w+), exclude_any=False\)$", c)
    if v and m and env[m.group(1)] == "Any":
        narrowed = dict(env, **{m.group(1): m.group(2)})
        if hasattr(env, "kinds"):
            narrowed = _VEnv(narrowed, env.kinds)
        return v, narrowed, env
    return v, env, env


def interpret(body, env):
    """returns (return annotation or 'Any', sorted error list)"""
    lines = body.split("\n")
    errors = []

    def block(i, indent, env=env):
        """execute lines starting at i with the given indentation; returns (value or None, next index)"""
        while i < len(lines):
            ln = lines[i]
            ind = len(ln) - len(ln.lstrip())
            if ind < indent:
                return None, i
            s = ln.strip()
            if s.startswith(("if ", "elif ")):
                # collect the chain
                taken = False
                ret = None
                while i < len(lines):
                    s = lines[i].strip()
                    ind2 = len(lines[i]) - len(lines[i].lstrip())
                    if ind2 != indent or not s.startswith(("if ", "elif ", "else:")):
                        break
                    if s.startswith(("if ", "elif ")) and s.startswith("if ") and taken is not False and False:
                        break
                    is_else = s == "else:"
                    cond = None if is_else else s[s.index(" ") + 1:-1]
                    # find the extent of this branch's block
                    j = i + 1
                    while j < len(lines) and (len(lines[j]) - len(lines[j].lstrip())) > indent:
                        j += 1
                    if is_else:
                        cv, cenv = True, env
                    else:
                        cv, cenv, fenv = _cond(cond, env)
                    if not taken and cv:
                        taken = True
                        ret, _ = block(i + 1, indent + 4, cenv)
                    elif not taken and not is_else:
                        env = fenv          # the following elif/else branches run where this test is known to be false
                    i = j
                    if i < len(lines) and lines[i].strip().startswith("if ") and (len(lines[i]) - len(lines[i].lstrip())) == indent:
                        break
                if ret is not None:
                    return ret, i
                continue
            if s.startswith("return "):
                return s[7:], i + 1
            if s.startswith("show_error("):
                errors.append(re.match(r"show_error\('(.*)'\)", s).group(1))
            i += 1
        return None, i
    val, _ = block(0, 4)
    return (val if val is not None else "Any"), sorted(errors)


# ---- driver ------------------------------------------------------------------------------------------------

def _members(t):
    if not t.startswith("Union["):
        return [t]
    parts, depth, cur = [], 0, ""
    for ch in t[6:-1]:
        if ch == "[":
            depth += 1
        if ch == "]":
            depth -= 1
        if ch == "," and depth == 0:
            parts.append(cur.strip())
            cur = ""
        else:
            cur += ch
    parts.append(cur.strip())
    return parts


def _parse_revealed(s):
    m = re.search(r"Revealed type is '(.*)'", s, re.S)
    s = m.group(1) if m else s
    out = set()
    for r in RETS:
        if r in s:
            out.add(r)
    if "Any[" in s and not out:
        out.add("Any")
    if not out:
        out.add(s[:30])
    return frozenset(out)


def _cond_kind(body):
    feats = []
    for kw, name in (("exclude_any=False", "xany"), ("is_provided", "prov"), ("is_positional", "pos"), ("is_keyword", "kw"), ("(k)", "konly"), (" == ", "eq"), (" != ", "ne"), (" is not ", "isnot"), (" is None", "is"),
                     ("sys.", "sys"), (" or ", "or"), (" and ", "and"), ("not ", "not"), ("elif", "elif"), ("E3", "nested"), ("E4", "seqif")):
        if kw in body:
            feats.append(name)
    return "+".join(feats)


def _run(res, tier, bs, base, only=None):
    from pa.run import check
    argt = ATOMS + UNIONS
    for bi, body in enumerate(bs):
        calls = [(t, ki) for t in argt for ki in range(len(KINDS))]
        hdr = [PRE, "@evaluated", "def f(x: Union[int, str, None], y: int = 0, *, k: int = 0):", body, "def f(x, y=0, *, k=0): return x",
               "def run(" + ", ".join("a%d: %s" % (j, t) for j, t in enumerate(argt)) + ", a: Any, kwd: Any) -> None:"]
        lines = ["    reveal_type(f(a%d%s))" % (argt.index(t), KINDS[ki][0]) for t, ki in calls]
        code = "\n".join(hdr + lines) + "\n"
        first = code.count("\n") - len(lines) + 1
        fails = check(code)
        res.transitions += 1
        by = {}
        for f in fails:
            by.setdefault(f.get("lineno"), []).append((f["code"].name, f.get("description", "")))
        got = {}
        for ci, (t, ki) in enumerate(calls):
            d = by.get(first + ci, [])
            rev = [x[1] for x in d if x[0] == "reveal_type"]
            errs = sorted(x[1].split(": ")[-1].strip() for x in d if x[0] == "incompatible_call")
            other = [x for x in d if x[0] not in ("reveal_type", "incompatible_call")]
            got[(t, ki)] = (_parse_revealed(rev[0]) if rev else frozenset(["<none>"]), tuple(errs), other)
        ck = _cond_kind(body)
        for ci, (t, ki) in enumerate(calls):
            if only is not None and [t, ki] != only:
                continue
            res.states += 1
            order = (base + bi) * 1000 + ci
            case = {"body": body, "call": [t, ki], "order": order}
            rv, errs, other = got[(t, ki)]
            desc = "@evaluated f(x: int|str|None, y: int = 0, *, k: int = 0):\n%s\ncall f(<%s>%s)" % (body, t, KINDS[ki][0])
            if other:
                res.violation({"kind": "unexpected-code", "codes": ",".join(sorted({o[0] for o in other})), "cond": ck}, case, "%s gives %s" % (desc, other[:1]))
                continue
            mem = _members(t)
            if len(mem) == 1:
                env = {"x": t, "y": KINDS[ki][1], "k": KINDS[ki][2]}
                try:
                    er, ee = interpret(body, env)
                except Unspecified:
                    res.outcomes["atom:unspecified"] += 1
                    continue
                res.validated += 1
                exp_r = frozenset([er])
                ok = rv == exp_r and list(errs) == ee
                res.outcomes["atom:%s" % ("agree" if ok else "differ")] += 1
                if not ok:
                    res.violation({"kind": "interpreter-disagrees", "what": "result" if rv != exp_r else "errors", "cond": ck, "x": t, "ykind": KINDS[ki][1], "kkind": KINDS[ki][2]}, case,
                                  "%s: the specification gives %s with errors %s; pyanalyze gives %s with errors %s" % (desc, er, ee, sorted(rv), list(errs)))
            else:
                res.validated += 1
                want_r = frozenset().union(*[got[(m, ki)][0] for m in mem])
                want_e = tuple(sorted(set().union(*[set(got[(m, ki)][1]) for m in mem])))
                ok = rv == want_r and tuple(sorted(set(errs))) == want_e
                res.outcomes["union:%s" % ("law-holds" if ok else "law-broken")] += 1
                if not ok:
                    res.violation({"kind": "union-law", "what": "result" if rv != want_r else "errors", "cond": ck, "has_any": str(int("Any" in t)), "union_test": str(int("is_of_type(x, Union[" in body)),
                                   "ykind": KINDS[ki][1]}, case,
                                  "%s: members give %s / errors %s, the union gives %s / errors %s" % (desc, sorted(want_r), list(want_e), sorted(rv), list(errs)))
        if (base + bi) % 97 == 0:
            res.sample({"body": body, "call": "f(<Union[int, None]>)", "revealed": sorted(got[("Union[int, None]", 0)][0])})


# ---- second family: two typed parameters and variadic parameters -----------------------------------------------------
V_HDR = "def g(x: Union[int, str, None], z: Union[int, str, None] = 0, *args: int, **kwargs: int):"
V_XZ = ["is_of_type(x, int)", "is_of_type(z, str)", "x == 1", 'z == "a"', "is_of_type(z, int)", "x is None", "z is None", "is_of_type(x, str, exclude_any=False)", 'x != "a"', "z is not None"]
V_K = ["is_provided(z)", "is_keyword(z)", "is_positional(z)", "is_provided(args)", "is_positional(args)", "is_keyword(args)", "is_provided(kwargs)", "is_keyword(kwargs)", "is_positional(kwargs)"]
V_T = ["int", "str", "None", "Literal[1]", "Literal['a']", "Any", "Union[Literal[1], Literal['a']]", "Union[int, str]", "Union[int, None]", "Union[Literal[1], None]", "Union[Literal['a'], None]"]
# (call text with X / Z placeholders, does the call pass z?, kind of z, kind of args, kind of kwargs)
V_CALLS = [("g(X)", False, "DEFAULT", "DEFAULT", "DEFAULT"), ("g(X, Z)", True, "POSITIONAL", "DEFAULT", "DEFAULT"), ("g(X, z=Z)", True, "KEYWORD", "DEFAULT", "DEFAULT"),
           ("g(x=X, z=Z)", True, "KEYWORD", "DEFAULT", "DEFAULT"), ("g(z=Z, x=X)", True, "KEYWORD", "DEFAULT", "DEFAULT"), ("g(x=X)", False, "DEFAULT", "DEFAULT", "DEFAULT"),
           ("g(X, Z, 5)", True, "POSITIONAL", "POSITIONAL", "DEFAULT"), ("g(X, Z, q=5)", True, "POSITIONAL", "DEFAULT", "KEYWORD"), ("g(X, z=Z, q=5)", True, "KEYWORD", "DEFAULT", "KEYWORD"),
           ("g(X, Z, 5, 6, q=5, r=6)", True, "POSITIONAL", "POSITIONAL", "KEYWORD"), ("g(X, *a)", False, "UNKNOWN", "POSITIONAL", "DEFAULT"), ("g(X, **kwd)", False, "UNKNOWN", "DEFAULT", "KEYWORD"),
           ("g(X, Z, *a, **kwd)", True, "POSITIONAL", "POSITIONAL", "KEYWORD"), ("g(X, Z, *a)", True, "POSITIONAL", "POSITIONAL", "DEFAULT"), ("g(X, Z, **kwd)", True, "POSITIONAL", "DEFAULT", "KEYWORD")]


def v_conditions(tier):
    out = list(V_XZ) + list(V_K) + ["not %s" % p for p in V_XZ + V_K]
    n = 6 if tier == "quick" else len(V_XZ)
    pairs = [(a, b) for a, b in itertools.permutations(V_XZ[:n], 2) if a[:12].count("x") != b[:12].count("x") or tier == "thorough"]
    pairs += [(a, b) for a in V_XZ[:4] for b in V_K] + [(b, a) for a in V_XZ[:4] for b in V_K] + list(itertools.permutations(V_K[3:], 2))[: (12 if tier == "quick" else 30)]
    for a, b in pairs:
        out.append("%s and %s" % (a, b))
        out.append("%s or %s" % (a, b))
        out.append("not (%s and %s)" % (a, b))
    return out


def v_bodies(tier):
    cs = v_conditions(tier)
    R = RETS
    out = []
    for c in cs:
        out.append("    if %s:\n        return %s\n    else:\n        return %s" % (c, R[0], R[1]))
    # a conjunction / disjunction over both parameters whose operands are tested again in the following branches
    xs = [p for p in V_XZ if p.startswith(("x", "is_of_type(x"))][: (3 if tier == "quick" else 5)]
    zs = [p for p in V_XZ if not p.startswith(("x", "is_of_type(x"))][: (3 if tier == "quick" else 5)]
    for a, b in itertools.product(xs, zs):
        for op in ("and", "or"):
            out.append("    if %s %s %s:\n        return %s\n    elif %s:\n        return %s\n    elif %s:\n        show_error('E2')\n        return %s\n    else:\n        return %s" % (a, op, b, R[0], a, R[1], b, R[2], R[3]))
            out.append("    if %s %s %s:\n        if %s:\n            return %s\n        else:\n            show_error('E3')\n            return %s\n    elif %s:\n        return %s\n    return %s"
                       % (a, op, b, a, R[0], R[1], b, R[2], R[3]))
            out.append("    if %s %s %s:\n        if %s:\n            return %s\n        return %s\n    else:\n        if %s:\n            return %s\n    return %s" % (b, op, a, b, R[0], R[1], a, R[2], R[3]))
    for a, b in itertools.product(V_K[3:], V_K[:3] + V_K[6:]):
        if a != b:
            out.append("    if %s:\n        return %s\n    elif %s:\n        show_error('E2')\n        return %s\n    else:\n        return %s" % (a, R[0], b, R[1], R[2]))
    return out


def _run_v(res, tier, bs, base, only=None):
    from pa.run import check
    for bi, body in enumerate(bs):
        calls = []
        for ci, (text, has_z, kz, ka, kk) in enumerate(V_CALLS):
            for tx in V_T:
                for tz in (V_T if has_z else ["-"]):
                    calls.append((ci, tx, tz))
        hdr = [PRE, "@evaluated", V_HDR, body, "def g(x, z=0, *args, **kwargs): return x",
               "def run(" + ", ".join("a%d: %s" % (j, t) for j, t in enumerate(V_T)) + ", a: Any, kwd: Any) -> None:"]
        lines = ["    reveal_type(%s)" % V_CALLS[ci][0].replace("X", "a%d" % V_T.index(tx)).replace("Z", "a%d" % V_T.index(tz) if tz != "-" else "Z") for ci, tx, tz in calls]
        code = "\n".join(hdr + lines) + "\n"
        first = code.count("\n") - len(lines) + 1
        fails = check(code)
        res.transitions += 1
        by = {}
        for f in fails:
            by.setdefault(f.get("lineno"), []).append((f["code"].name, f.get("description", "")))
        got = {}
        for n, key in enumerate(calls):
            d = by.get(first + n, [])
            rev = [x[1] for x in d if x[0] == "reveal_type"]
            errs = sorted(x[1].split(": ")[-1].strip() for x in d if x[0] == "incompatible_call")
            other = [x for x in d if x[0] not in ("reveal_type", "incompatible_call")]
            got[key] = (_parse_revealed(rev[0]) if rev else frozenset(["<none>"]), tuple(errs), other)
        ck = _cond_kind(body) + ("+z" if "z" in re.sub(r"is_\w+\(z\)", "", body) else "") + ("+var" if "args)" in body else "")
        for n, (ci, tx, tz) in enumerate(calls):
            if only is not None and [ci, tx, tz] != only:
                continue
            res.states += 1
            text, has_z, kz, ka, kk = V_CALLS[ci]
            order = 5 * 10 ** 8 + (base + bi) * 10000 + n
            case = {"family": "v", "body": body, "call": [ci, tx, tz], "order": order}
            rv, errs, other = got[(ci, tx, tz)]
            desc = "@evaluated %s\n%s\ncall %s with X: %s%s" % (V_HDR, body, text, tx, "" if tz == "-" else ", Z: " + tz)
            if other:
                res.violation({"kind": "unexpected-code", "codes": ",".join(sorted({o[0] for o in other})), "cond": ck, "family": "v"}, case, "%s gives %s" % (desc, other[:1]))
                continue
            mx, mz = _members(tx), (_members(tz) if tz != "-" else ["-"])
            if len(mx) == 1 and len(mz) == 1:
                env = {"x": tx, "z": (tz if has_z else ("Literal[0]" if kz == "DEFAULT" else "?")), "args": ka, "kwargs": kk}
                env["z "] = kz
                kinds = {"z": kz, "args": ka, "kwargs": kk}
                try:
                    er, ee = interpret(body, _VEnv(env, kinds))
                except Unspecified:
                    res.outcomes["v-atom:unspecified"] += 1
                    continue
                res.validated += 1
                exp_r = frozenset([er])
                ok = rv == exp_r and list(errs) == ee
                res.outcomes["v-atom:%s" % ("agree" if ok else "differ")] += 1
                if not ok:
                    res.violation({"kind": "interpreter-disagrees", "what": "result" if rv != exp_r else "errors", "cond": ck, "x": tx, "z": tz, "family": "v", "zkind": kz, "akind": ka, "kwkind": kk, "call": text}, case,
                                  "%s: the specification gives %s with errors %s; pyanalyze gives %s with errors %s" % (desc, er, ee, sorted(rv), list(errs)))
            else:
                res.validated += 1
                mem = [(ci, a, b) for a in mx for b in mz]
                want_r = frozenset().union(*[got[m][0] for m in mem])
                want_e = tuple(sorted(set().union(*[set(got[m][1]) for m in mem])))
                ok = rv == want_r and tuple(sorted(set(errs))) == want_e
                res.outcomes["v-union:%s" % ("law-holds" if ok else "law-broken")] += 1
                if not ok:
                    res.violation({"kind": "union-law", "what": "result" if rv != want_r else "errors", "cond": ck, "has_any": str(int("Any" in tx + tz)), "family": "v",
                                   "unions": str(int(len(mx) > 1)) + str(int(len(mz) > 1)), "zkind": kz}, case,
                                  "%s: the member combinations give %s / errors %s, the unions give %s / errors %s" % (desc, sorted(want_r), list(want_e), sorted(rv), list(errs)))
        if (base + bi) % 53 == 0:
            res.sample({"family": "v", "body": body})


class _VEnv(dict):
    """environment of the second family: types of x and z, kinds of z / args / kwargs (a name is looked up as a type by the type primitives and as a kind by is_provided & co)"""

    def __init__(self, types, kinds):
        super().__init__(types)
        self.kinds = kinds


def run_unit(unit):
    if unit[0] == "v":
        _, tier, lo, hi = unit
        res = UnitResult()
        _run_v(res, tier, v_bodies(tier)[lo:hi], lo)
        return res
    tier, lo, hi = unit
    res = UnitResult()
    _run(res, tier, bodies(tier)[lo:hi], lo)
    return res


def replay(case):
    res = UnitResult()
    if case.get("family") == "v":
        _run_v(res, "quick", [case["body"]], (case.get("order", 0) - 5 * 10 ** 8) // 10000, only=case["call"])
        return list(res.viol.values())
    _run(res, "quick", [case["body"]], case.get("order", 0) // 1000, only=case["call"])
    return list(res.viol.values())


META = {
    "text": "Every generated evaluator body is compiled with the real @evaluated decorator and called with every (argument type, argument kind pattern) pair through the real visitor; "
            "revealed type and show_error diagnostics are compared with a direct interpreter of docs/type_evaluation.md for atomic argument types and with the union law for unions.",
    "note": "Trusted: the reference interpreter written from the specification text; comparisons of a non-literal class with a constant are only checked through the union law.",
    "technique": "bounded exhaustive enumeration of evaluator bodies x calls against the real evaluator, oracle = reference interpreter of the specification + union law",
}
