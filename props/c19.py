"""C19 — operations on known objects agree with performing them (kind E, oracle = CPython)."""
import ast
import itertools

from mc.core import UnitResult

ID = "C19"
PARTS = ['attr', 'bin', 'sub', 'un']      # outcome classes every run must produce (guards against a part of the exploration silently not running)
RULE = ("state = one operation on literal operands: binary operator x operand pair, unary operator x operand, attribute name x operand, "
        "subscript x index; oracle: evaluate the expression under CPython; diagnosed <=> TypeError/AttributeError (IndexError for tuple indices); "
        "an inferred KnownValue must equal the result in value and type")
ASSUMPTIONS = ["CPython 3.12 evaluation of the expression is the specification", "operands are immutable literals, enum members, a module, classes"]
MAXTASKS = 50

PRELUDE = '''import os
import enum
class E(enum.Enum):
    X = 1
    Y = 2
class IE(enum.IntEnum):
    P = 1
class K:
    attr = 1
import collections
NTup = collections.namedtuple("NTup", ["p", "q"])
nt = NTup(1, 2)
class GBase:
    def __getattr__(self, name):
        return 1
class GSub(GBase):
    y = 2
class Ann:
    z: int
class IF(enum.IntFlag):
    R = 1
    W = 2
'''

OPERANDS = {
    "quick": ["None", "True", "0", "1", "2", "-1", "1.5", '"a"', '""', 'b"a"', '(1, "a")', "()", "E.X", "IE.P", "os", "int",
              # a tuple subclass instance, a class whose base defines an instance-level __getattr__, a class with an annotation-only attribute, an IntFlag member, an Enum class
              "nt", "GSub", "Ann", "IF.R", "E"],
    "thorough": ["None", "True", "False", "0", "1", "2", "3", "-1", "-2", "8", "1.5", "0.0", "-2.5", "1j", '"a"', '""', '"ab"', '"%s"', 'b"a"', 'b""',
                 '(1, "a")', "()", "(1,)", "(1, 2, 3)", '("a", "b")', "((1,),)", "E.X", "E.Y", "IE.P", "os", "enum", "int", "str", "K", "E", "tuple",
                 "-0.0", '"é"', 'b"\\xff"', "(None,)", "nt", "GSub", "Ann", "IF.R", "IF.R | IF.W"],
}
BINOPS = ["+", "-", "*", "/", "//", "%", "**", "<<", ">>", "|", "^", "&", "@", "==", "!=", "in", "not in"]
UNOPS = ["-", "+", "~", "not "]
DIAG = {"undefined_attribute", "unsupported_operation", "incompatible_call", "not_callable", "incompatible_argument"}
# lint-only codes the property excludes: they say nothing about whether the operation raises
LINT = {"unsafe_comparison", "value_always_true", "type_always_true", "type_does_not_support_bool"}


def _same(a, b):
    """Equal in value and type; objects of prelude classes and bound methods are compared structurally
    (the oracle evaluates in its own copy of the prelude namespace)."""
    import types
    if isinstance(a, (types.BuiltinMethodType, types.MethodType, types.MethodWrapperType)) and type(a) is type(b):
        return a.__name__ == b.__name__ and _same(a.__self__, b.__self__)
    if isinstance(a, types.UnionType) and isinstance(b, types.UnionType):
        return len(a.__args__) == len(b.__args__) and all(_same(x, y) for x, y in zip(a.__args__, b.__args__))
    if type(a) is type(b):
        try:
            if a is b or a == b or (a != a and b != b):
                return True
        except Exception:
            pass
    ta, tb = type(a), type(b)
    if ta.__qualname__ == tb.__qualname__ and repr(a) == repr(b) and (isinstance(a, type) or ta.__module__ != "builtins"):
        return True
    return False


def bounds(tier):
    return {"operands": len(OPERANDS[tier]), "binary_ops": len(BINOPS), "unary_ops": len(UNOPS)}


def _ns():
    import warnings
    warnings.simplefilter("ignore", SyntaxWarning)
    ns = {"__name__": "prelude"}
    exec(PRELUDE, ns)
    return ns


def _attr_names(obj):
    names = [n for n in dir(obj) if not n.startswith("_")][:5]
    names += ["__class__", "__doc__"]
    real = list(dict.fromkeys(names))
    fake = ["nope", "reel", "__nope__", "name", "value", "z", "y", "count"]
    if real and len(real[0]) > 2:
        fake.append(real[0][:-2] + real[0][-1] + real[0][-2])   # transposed spelling, e.g. path -> paht
    return real + fake


def cases(tier):
    ops = OPERANDS[tier]
    ns = _ns()
    out = []
    for a, op, b in itertools.product(ops, BINOPS, ops):
        if op in ("%",) and a.startswith(('"', 'b"')):
            continue    # C17's subject
        if op in ("**", "<<", "*") and (b in ("8",) and a in ("8",)):
            pass
        out.append(("bin", "(%s) %s (%s)" % (a, op, b)))
    for op, a in itertools.product(UNOPS, ops):
        out.append(("un", "%s(%s)" % (op, a)))
    for a in ops:
        try:
            obj = eval(a, ns)
        except Exception:
            continue
        for n in _attr_names(obj):
            out.append(("attr", "(%s).%s" % (a, n)))
    idx = ["0", "1", "2", "-1", "-2", "-3", "-4", "3", "0:1", "1:", "::2", '"a"', "None", "1.5", "True", '"a":', "1.5:", "::0", ":None", "True:"]
    for a, i in itertools.product(ops, idx):
        out.append(("sub", "(%s)[%s]" % (a, i)))
    return out


CHUNK = 400


def units(tier):
    n = len(cases(tier))
    return [(tier, i, min(n, i + CHUNK)) for i in range(0, n, CHUNK)]


def _eval(expr, ns):
    try:
        return ("ok", eval(expr, ns))
    except BaseException as e:
        return ("exc", e)


def _judge(res, kind, expr, diags, inferred, ns, order):
    from pyanalyze.value import KnownValue
    st, val = _eval(expr, ns)
    codes = sorted({c for c, _ in diags})
    diagnosed = bool(set(codes) & DIAG)
    other = [c for c in codes if c not in DIAG and c not in LINT]
    res.validated += 1
    if st == "exc":
        is_tuple_sub = kind == "sub" and isinstance(_eval(expr[:expr.rindex("[")], ns)[1], tuple)
        if isinstance(val, (TypeError, AttributeError)) or (isinstance(val, IndexError) and is_tuple_sub):
            must = True
        else:
            must = None    # ZeroDivisionError, OverflowError, ValueError, IndexError on str: imposes nothing
        oc = type(val).__name__
    else:
        must = False
        oc = "ok"
    res.outcomes["%s:%s/%s" % (kind, oc, "diagnosed" if diagnosed else "accepted")] += 1
    case = {"kind": kind, "expr": expr, "order": order}
    if other:
        res.violation({"kind": "unexpected-code", "codes": ",".join(other), "op": kind},
                      case, "%s: unexpected diagnostic %s" % (expr, [d for c, d in diags if c in other][:1]))
    if must is not None and must != diagnosed:
        sig = {"kind": "missed" if must else "false-alarm", "op": kind, "cpython": oc,
               "pyanalyze": ",".join(codes) or "accepted", "form": _form(kind, expr, ns)}
        res.violation(sig, case, "%s: CPython %s; pyanalyze %s" % (
            expr, ("raises %s: %s" % (oc, val)) if st == "exc" else "evaluates to %r" % (val,),
            ("reports " + "; ".join(d.split("\n")[0] for c, d in diags)) if diags else "accepts"))
    if st == "ok" and inferred:
        for v in inferred:
            if isinstance(v, KnownValue):
                same = _same(v.val, val)
                res.validated += 1
                if not same:
                    sig = {"kind": "wrong-literal", "op": kind, "form": _form(kind, expr, ns)}
                    res.violation(sig, case, "%s: inferred Literal[%r] (%s) but evaluates to %r (%s)" % (expr, v.val, type(v.val).__name__, val, type(val).__name__))
    elif st == "exc" and must and not diagnosed:
        pass


def _tname(src, ns):
    st, v = _eval(src, ns)
    if st != "ok":
        return "?"
    import types
    if isinstance(v, types.ModuleType):
        return "module"
    if isinstance(v, type):
        return "class"
    return type(v).__name__


def _form(kind, expr, ns):
    """Root-cause oriented rendering: operand types instead of operand values."""
    t = ast.parse(expr, mode="eval").body
    seg = lambda n: ast.get_source_segment(expr, n)
    if kind == "bin":
        if isinstance(t, ast.BinOp):
            return "%s %s %s" % (_tname(seg(t.left), ns), type(t.op).__name__, _tname(seg(t.right), ns))
        if isinstance(t, ast.Compare):
            return "%s %s %s" % (_tname(seg(t.left), ns), type(t.ops[0]).__name__, _tname(seg(t.comparators[0]), ns))
        if isinstance(t, ast.BoolOp):
            return "%s %s %s" % (_tname(seg(t.values[0]), ns), type(t.op).__name__, _tname(seg(t.values[1]), ns))
    if kind == "un":
        return "%s %s" % (type(t.op).__name__, _tname(seg(t.operand), ns))
    if kind == "attr":
        return "%s.%s" % (_tname(seg(t.value), ns), t.attr)
    if kind == "sub":
        return "%s[%s]" % (_tname(seg(t.value), ns), seg(t.slice))
    return expr


def _run(res, cs, base_order):
    from pa.run import Rec, check, cleanup_module
    nprel = PRELUDE.count("\n")
    src = PRELUDE + "def run():\n" + "".join("    %s\n" % e for _, e in cs)
    fails, tree, mod = check(src, visitor_cls=Rec, want_module=True)
    res.transitions += 1
    by_line = {}
    for f in fails:
        by_line.setdefault(f.get("lineno"), []).append((f["code"].name, f.get("description", "")))
    inf_by_line = {}
    fn = tree.body[-1]
    for stmt in fn.body:
        inf_by_line[stmt.lineno] = getattr(stmt.value, "_inf", [])
    ns = vars(mod)      # the oracle evaluates in the namespace of the checked module itself
    for j, (kind, expr) in enumerate(cs):
        ln = nprel + 2 + j
        res.states += 1
        _judge(res, kind, expr, by_line.get(ln, []), inf_by_line.get(ln, []), ns, base_order + j)
        if (base_order + j) % 997 == 0:
            res.sample({"expr": expr, "diagnostics": by_line.get(ln, [])[:1]})
    cleanup_module(mod)


def run_unit(unit):
    tier, lo, hi = unit
    res = UnitResult()
    _run(res, cases(tier)[lo:hi], lo)
    return res


def replay(case):
    res = UnitResult()
    _run(res, [(case["kind"], case["expr"])], case.get("order", 0))
    return list(res.viol.values())


META = {
    "text": "Every operation in the product (operand literals x binary/unary operators, attribute names incl. misspellings, literal subscripts) is checked by the real "
            "pyanalyze and evaluated by CPython; diagnosed <=> TypeError/AttributeError (IndexError for tuple indices) and every inferred literal equals the result.",
    "note": "Trusted: CPython 3.12 evaluation. ZeroDivisionError/OverflowError/ValueError impose nothing. % on str/bytes left operands belongs to C17.",
    "technique": "bounded exhaustive enumeration of operations on a literal universe, oracle = evaluating the expression under CPython",
}
