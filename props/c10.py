"""C10 — diagnostics are deterministic and independent of prior checks (kinds N + S + free-running seeds)."""
import itertools
import json
import os
import subprocess
import sys

from mc.core import UnitResult

ID = "C10"
PARTS = ['sched', 'hist', 'seeds', 'typing-cache', 'hsched', 'hseeds', 'hhist']      # outcome classes every run must produce (guards against a part of the exploration silently not running)
RULE = ("(N) every iteration over a builtin set/frozenset inside pyanalyze is a choice point (AST instrumentation at import, mc/ndimport.py); each corpus program is checked under the "
        "identity schedule and under every schedule with one deviating site (quick) / one deviating occurrence and every pair of deviating sites (thorough); (S) explicit-state search "
        "over check histories: every sequence of corpus programs up to depth 2/3 on one shared Checker, then every program must render as on a fresh Checker; the corpus collides on "
        "purpose (same names, different types); (seeds) the whole corpus is checked in fresh uninstrumented subprocesses under PYTHONHASHSEED 0-7 / 0-31 with allocation-perturbing "
        "prologues. Invariant everywhere: the rendered diagnostic multiset (code, line, column, full message) equals the baseline")
ASSUMPTIONS = ["the scheduler owns set/frozenset iteration reached from pyanalyze's own Python code; orders produced inside C code or typeshed_client are covered only by the seed runs",
               "the identity-schedule run of the instrumented code must equal the uninstrumented run (conformance check, part of every run)"]
MAXTASKS = 1


def FREE_RUNNING(case):
    """the seed block runs uninstrumented processes whose set orders nobody controls"""
    return case.get("mode") == "seeds"

PRE = '''from typing import *
from typing_extensions import Annotated, Literal, Protocol, TypedDict, NotRequired
def c() -> bool: ...
T = TypeVar("T")
class P3(Protocol):
    def m1(self) -> int: ...
    def m2(self) -> int: ...
    def m3(self) -> int: ...
class Impl0:
    pass
class TD3(TypedDict):
    ka: int
    kb: int
    kc: int
'''
TEMPLATES = [
    "def f(x: Union[{A}, {B}, None]) -> None:\n    if isinstance(x, {A}) or x is None:\n        reveal_type(x)\n    else:\n        reveal_type(x)\n",
    "def g(a: {A}) -> None: ...\ndef f() -> None:\n    g(1, cc=3, dd=4, ee=5)\n",
    "def f() -> None:\n    print(\"%(ka)s %(kb)s %(kc)s\" % {{}})\n",
    "def use(p: P3) -> None: ...\ndef f() -> None:\n    use(Impl0())\n",
    "def f() -> None:\n    v = {LA} if c() else ({LB} if c() else None)\n    reveal_type(v)\n",
    "def ident(a: T, b: T, cc: T) -> T: return a\ndef f(x: {A}, y: {B}) -> None:\n    reveal_type(ident(x, y, None))\n",
    "@overload\ndef ov(a: {A}) -> {A}: ...\n@overload\ndef ov(a: {B}) -> {B}: ...\ndef ov(a: object) -> object: return a\ndef f() -> None:\n    ov(None)\n    reveal_type(ov)\n",
    "def f() -> None:\n    ua = 1\n    ub = 2\n    uc = 3\n",
    "x: Optional[{A}] = None\ndef f(flag: bool) -> None:\n    if flag:\n        assert x is not None\n    reveal_type(x)\n",
    "def mk() -> Annotated[Literal[{LA}, {LB}, {LC}], \"meta\"]: ...\ndef f() -> None:\n    v = mk() if c() else None\n    reveal_type(v)\n    w: int = v\n",
    "def f() -> None:\n    d: TD3 = {{}}\n",
    "def f(x: {A}) -> None:\n    reveal_type({{1, {LA}, None, x}})\n    reveal_type({{{LA}: 1, {LB}: x}})\n",
    "def f(x: Union[{A}, {B}, None]) -> None:\n    match x:\n        case {A}() | None:\n            reveal_type(x)\n        case _:\n            reveal_type(x)\n",
    "class K:\n    def m(self) -> None:\n        self.aa = 1\n    def n(self) -> None:\n        print(self.bb, self.cc, self.aa)\n",
    "def f(x: Union[{A}, {B}, None]) -> None:\n    if x in ({LA}, {LB}, None):\n        reveal_type(x)\n    else:\n        reveal_type(x)\n",
    "def g(pa: {A}, pb: {B}, pc: int) -> None: ...\ndef f() -> None:\n    g()\n    g(pz=1)\n",
    "x: Union[{A}, {B}, None] = None\ndef f() -> None:\n    if x is not None and not isinstance(x, {B}):\n        reveal_type(x)\n    reveal_type(x)\n",
    "def f(x: {A}, y: {B}) -> None:\n    v = [x, y, None]\n    reveal_type(v)\n    w = (x if c() else y) if c() else {LA}\n    reveal_type(w)\n",
    # --- templates added to reach set-iteration sites that pyanalyze's own test-suite reaches and the corpus above did not (tools/ndplugin.py, tools/nd_sites_cmp.py)
    "def f(x: str, y: object) -> None:\n    if x in {{'alpha', 'beta', 'gamma', 'delta', {LB}}}:\n        reveal_type(x)\n    if y not in {{'alpha', 'beta', {LA}}}:\n        pass\n    else:\n        reveal_type(y)\n",
    "SS = {{'alpha', 'beta', 'gamma', 'delta', {LB}}}\nFS = frozenset({{'alpha', 'beta', {LA}}})\ndef f(y: object) -> None:\n    for e in SS:\n        reveal_type(e)\n    if y in FS:\n        reveal_type(y)\n    reveal_type([e2 for e2 in FS])\n    w: int = SS\n",
    "def f(x: Union[Literal[{LA}], Literal[{LB}], list[{A}], None], y: Union[Literal[1], Literal['a'], tuple[int, int]]) -> None:\n    if x:\n        reveal_type(x)\n    if y:\n        reveal_type(y)\n    if (1, {LA}):\n        pass\n",
    "U = TypeVar('U')\nV = TypeVar('V')\ndef g2(a: T, b: U, cc: V) -> dict[T, tuple[U, V]]: ...\ndef f() -> None:\n    reveal_type(g2())\n    reveal_type(g2({LA}))\n    reveal_type(g2({LA}, {LB}, zz=1))\n",
    "TB = TypeVar('TB', bound=int)\nU = TypeVar('U', str, bytes)\ndef g3(a: TB, b: U, cc: T) -> tuple[TB, U, T]: ...\ndef f(x: {A}, y: {B}) -> None:\n    reveal_type(g3(x, y, None))\n    reveal_type(g3('s', 1.0, 1))\n    reveal_type(g3(b=1, a='s', cc=2))\n",
    "def g4(a: Union[list[T], set[T], dict[T, T]]) -> T: ...\ndef f(x: Union[list[{A}], set[{B}]], y: Union[list[{A}], dict[{B}, {B}], set[None]]) -> None:\n    reveal_type(g4(x))\n    reveal_type(g4(y))\n    reveal_type(g4([1, 'a']))\n    g4(1)\n",
    "def f(x: Union[{A}, {B}, None]) -> None:\n    v = None\n    for i in range(3):\n        if c():\n            v = x\n        elif c():\n            v = {LA}\n        else:\n            w = v\n            reveal_type(w)\n        if isinstance(v, {A}):\n            reveal_type(v)\n    reveal_type(v)\n    try:\n        v = {LB}\n        if c():\n            v = {LC}\n    finally:\n        reveal_type(v)\n    while c():\n        if v is None:\n            v = x\n            continue\n        reveal_type(v)\n",
    "def f(x: {A}) -> None:\n    ua = 1\n    ua = 2\n    if c():\n        ua = 3\n    ub = \"{{x}} and {{ua}} or {{ub}}\"\n    for uc in range(3):\n        uc = 4\n    ud = ue = 5\n",
    "import logging.config\ndef f(x: {A}) -> None:\n    logging.config.dictConfig(x)\n    logging.config.dictConfig({{'version': 1, 'root': {LA}}})\n",
    "def f(x: Union[{A}, {B}, None], y: object) -> None:\n    if isinstance(x, ({A}, {B}, bytes, float)):\n        reveal_type(x)\n    if isinstance(y, ({A}, {B}, bool)) and y in ({LA}, {LB}, {LC}):\n        reveal_type(y)\n    if type(y) in {{int, str, bytes}}:\n        reveal_type(y)\n",
    "class Q1:\n    qa: int = 1\nclass Q2(Q1):\n    qb: str = ''\nclass Q3(Q2, Generic[T]):\n    def m(self, t: T) -> None:\n        print(self.qa, self.qb, self.qc, self.qd)\n        self.qe = t\ndef f(q: Q3[{A}], r: float, i: int) -> None:\n    q.m({LB})\n    reveal_type(q.qe)\n    r = i\n    i = r\n    cpx: complex = i\n    use(i)\n    use(r)\ndef use(p: P3) -> None: ...\n",
    "def takes(**kwargs: str) -> None: ...\ndef takes2(a: int = 0, **kwargs: {B}) -> None: ...\ndef f(key: Literal['alpha', 'beta', 'gamma', 'delta'], k2: Literal['a', 'bb', {LB}]) -> None:\n    takes(**{{key: 1}})\n    takes2(**{{key: {LA}, k2: None}})\n    takes2(**{{k2: 1.5}}, **{{key: b''}})\n",
    # sets nested inside other literal containers
    "ND = {{'k': {{'alpha', 'beta', 'gamma', {LB}}}, 'j': [{{'delta', 'epsilon'}}], 'i': ({{'zeta', 'eta'}}, 1)}}\nNF = frozenset({{frozenset({{'a', 'b'}}), frozenset({{'c', 'd'}})}})\ndef f() -> None:\n    w: int = ND\n    u: int = NF\n    reveal_type(ND['j'])\n",
    # alternatives of an OrBound in the detail of "Cannot resolve type variables"
    "def ob(x: Union[T, Sequence[T]], y: Callable[[T], None], z: T) -> T: ...\ndef og(a: str) -> None: ...\ndef f() -> None:\n    ob(['alpha'], og, 1.5)\n    ob([{LA}], og, {LB})\n",
    # a fifth pair for the history search: literals that compare equal but are different objects ((1, True) == (1, 1), 0.0 == -0.0)
    "def f() -> None:\n    print(iter((1, True)), next(iter((0.0, 2))), iter(({LA}, {LB})))\n",
    "def f() -> None:\n    reveal_type(iter((1, 1)))\n    reveal_type(next(iter((-0.0, 2))))\n    reveal_type(iter(({LA}, {LB})))\n",
    # a fourth pair for the history search: calls of builtins whose typeshed signatures mention protocols, then the text of those signatures
    "def f(x: object) -> None:\n    print(int(3.5), len('a'), abs(-1), iter([{LA}]), sorted([{LA}]), hash({LB}))\n",
    "def f() -> None:\n    reveal_type(int)\n    reveal_type(len)\n    reveal_type(abs)\n    reveal_type(iter)\n    reveal_type(hash)\n",
    # sets of tuples that are only partially ordered among themselves (None vs int in the same position)
    "def f(x: object, y: object) -> None:\n    if x in {{('alpha', 1), ('alpha', None), ('beta', {LA}), ('beta', 'z'), ('gamma',)}}:\n        reveal_type(x)\n    for e in {{('k', None), ('k', 0), ('j', b'')}}:\n        reveal_type(e)\n",
    # a third pair for the history search: a union whose first member matches a generic protocol only structurally, then the plain member alone
    "import tarfile, zipfile\ndef f(src: Union[tarfile.TarFile, List[{A}]], z: Union[zipfile.ZipFile, Dict[str, {B}]]) -> None:\n    for i, m in enumerate(src):\n        pass\n    print(sorted(src, key=str), list(src), len(z.namelist()))\n",
    "import tarfile, zipfile\ndef f(src: tarfile.TarFile) -> None:\n    for i, m in enumerate(src):\n        reveal_type(m)\n        print(m.size)\n    reveal_type(list(src))\n    reveal_type(sorted(src, key=str))\n",
    # a pair for the history search: the first discards the results of standard-library calls in expression statements, the second checks the same results against typeshed-only bases
    "import io, subprocess\ndef f(path: str) -> None:\n    open(path, 'w')\n    open(path, 'rb')\n    io.StringIO()\n    iter([{LA}])\n    path.encode()\n    subprocess.Popen(path)\n    sorted([{LA}, {LB}])\n",
    "import io, subprocess\ndef tt(f: TextIO) -> None: ...\ndef tb(f: BinaryIO) -> None: ...\ndef ti(f: IO[str]) -> None: ...\ndef it(f: Iterator[{A}]) -> None: ...\ndef cm(f: ContextManager[Any]) -> None: ...\ndef f(path: str) -> None:\n    tt(open(path, 'w'))\n    tb(open(path, 'rb'))\n    ti(io.StringIO())\n    it(iter([{LA}]))\n    cm(subprocess.Popen(path))\n    cm(open(path))\n    tt(open(path, 'rb'))\n",
    # a second pair for the history search: classes that subclass typeshed protocol ABCs and override their methods, then ordinary classes passed where those protocols are expected
    "class Bag(Sized):\n    def __len__(self) -> int: return 0\nclass Its(Iterable[{A}]):\n    def __iter__(self) -> Iterator[{A}]: return iter(())\nclass Cont(Container[{A}]):\n    def __contains__(self, x: object) -> bool: return False\nclass Hs(Hashable):\n    def __hash__(self) -> int: return 0\nclass Rv(Reversible[{A}]):\n    def __reversed__(self) -> Iterator[{A}]: return iter(())\n    def __iter__(self) -> Iterator[{A}]: return iter(())\n",
    "class Box:\n    def __len__(self) -> int: return 1\nclass Box2:\n    def __iter__(self) -> Iterator[{A}]: return iter(())\nclass Box3:\n    def __contains__(self, x: object) -> bool: return True\nclass Box4:\n    def __reversed__(self) -> Iterator[{A}]: return iter(())\n    def __iter__(self) -> Iterator[{A}]: return iter(())\ndef ts(x: Sized) -> None: ...\ndef ti(x: Iterable[{A}]) -> None: ...\ndef tc(x: Container[{A}]) -> None: ...\ndef th(x: Hashable) -> None: ...\ndef tr(x: Reversible[{A}]) -> None: ...\ndef f() -> None:\n    ts(Box())\n    ti(Box2())\n    tc(Box3())\n    th(Box())\n    tr(Box4())\n    ts(Box2())\n",
    # --- order-sensitive programs: the result order is derived from a set / a cache inside pyanalyze rather than from the declared union
    "def f(x: object, y: object) -> None:\n    if isinstance(x, {A}) or isinstance(x, {B}) or x is None:\n        reveal_type(x)\n    if isinstance(y, {B}) or y == {LA} or isinstance(y, {A}):\n        reveal_type(y)\n    if not (isinstance(x, {A}) and isinstance(y, {A})):\n        reveal_type(x)\n",
    "def f() -> None:\n    try:\n        v = {LA}\n        v = {LB}\n        v = 2.0\n        w = {LC}\n        w = None\n    except Exception:\n        pass\n    reveal_type(v)\n    reveal_type(w)\n    with open('x') as fh:\n        u = {LA}\n        u = {LB}\n        u = b''\n    reveal_type(u)\n",
    "def f(a: list[Union[{A}, {B}]], d: dict[str, Union[{A}, {B}]], t: tuple[Union[{A}, {B}, None], ...]) -> None:\n    reveal_type(iter(a))\n    reveal_type(reversed(a))\n    reveal_type(sorted(d))\n    reveal_type(max(a))\n    reveal_type(dict(d))\n    reveal_type(list(t))\n    reveal_type(enumerate(t))\n    for e in t:\n        reveal_type(e)\n",
]
VARIANTS = [dict(A="int", B="str", LA="1", LB="'b'", LC="'c'"), dict(A="bytes", B="float", LA="'a'", LB="2", LC="'z'")]
# the first variant with the two types exchanged: the same unions spelled in the other order (appended after the main block so that indices stay stable)
SWAPPED = dict(A="str", B="int", LA="'b'", LB="1", LC="'c'")
NV = len(VARIANTS)


def tid(pi):
    """template number of corpus program pi"""
    n = NV * len(TEMPLATES)
    return pi // NV if pi < n else pi - n


def pidx(t, v):
    """corpus index of template t (negative = from the end) in variant v (0, 1, or 's' = swapped)"""
    t = t % len(TEMPLATES)
    return NV * len(TEMPLATES) + t if v == "s" else NV * t + v


def corpus(tier):
    out = []
    ts = TEMPLATES if tier == "thorough" else TEMPLATES
    for t in ts:
        for v in VARIANTS:
            out.append(PRE + t.format(**v))
    for t in ts:
        out.append(PRE + t.format(**SWAPPED))
    return out


def bounds(tier):
    _install()
    return {"corpus": len(corpus(tier)), "schedule_deviations": "1 site" if tier == "quick" else "1 site (all programs), 1 occurrence (cap 8; first and swapped variants), 2 sites (first variant)", "history_depth": 2 if tier == "quick" else 3,
            "history_alphabet": 20 if tier == "quick" else 24, "seeds": 8 if tier == "quick" else 32,
            "harvested_programs": len(__import__("props.c10_harvest", fromlist=["x"]).hcorpus()), "harvested_schedules": "1 site (rev)" if tier == "quick" else "1 site (rev, rot1, swap01)",
            "harvested_seeds": 6 if tier == "quick" else 24, "harvested_histories": "corpus in order, in reverse order" + ("" if tier == "quick" else ", and in order starting at every 12th program (wrapping around)")}


def units(tier):
    n = len(corpus(tier))
    # quick: schedules for the first and the swapped variant of every template (the second variant only changes the type vocabulary); thorough: all three
    u = [("sched", tier, i) for i in range(n) if tier == "thorough" or i >= NV * len(TEMPLATES) or i % NV == 0]
    k = 22 if tier == "quick" else 26
    u += [("hist", tier, i) for i in range(k)]
    u += [("seeds", tier, 0), ("typing", tier, 0)]
    # second corpus: the programs of pyanalyze's own test-suite (props/c10_harvest.py)
    _install()        # harvesting imports pyanalyze: the instrumentation must be in place first (workers are forked from this process)
    from props.c10_harvest import hcorpus
    n = len(hcorpus())
    step = HS_STEP
    u += [("hsched", tier, i) for i in range(0, n, step)]
    u += [("hseeds", tier, 0)]
    u += [("hhist", tier, -1), ("hhist", tier, -2)]
    if tier == "thorough":
        u += [("hhist", tier, i) for i in range(HH_ROT, n, HH_ROT * HH_STEP)]
    return u


def _install():
    from mc import ndimport
    ndimport.install()
    return ndimport


def render_src(src, checker):
    """diagnostics + the text reveal_type() would print at every expression node (recording visitor)"""
    from props.c10_harvest import render_full
    return render_full(src, checker)


def _fresh_check(src):
    from pa.run import make_checker
    return render_src(src, make_checker())


def _diff(a, b):
    from props.c10_harvest import show_diff
    return show_diff(a, b)


def _what(a, b):
    from props.c10_harvest import diff_kind
    return diff_kind(a, b)


def _sched(res, tier, pi, only=None):
    nd = _install()
    S = nd.SCHED
    src = corpus(tier)[pi]
    S.policy.clear()
    S.reset_run()
    base = _fresh_check(src)
    res.transitions += 1
    sites = {s: n for s, n in S.counts.items()}
    sizes = dict(S.sizes)
    # conformance: identity schedule twice gives the same rendering
    S.reset_run()
    again = _fresh_check(src)
    res.transitions += 1
    res.validated += 1
    case0 = {"mode": "sched", "prog": pi, "order": pi * 100000}
    if again != base:
        res.violation({"kind": "identity-schedule-not-repeatable", "prog": str(tid(pi))}, dict(case0, policy=None),
                      "two checks of the same program under the identity schedule differ: %s" % _diff(base, again))
        return
    res.extra["dynamic_choice_points"] += sum(sites.values())
    res.extra["static_sites_instrumented"] = S.static_sites
    deviations = []
    for site in sorted(sites, key=str):
        n = sizes.get(site, 2)
        pols = ["rev"] if n == 2 else (["rev", "rot1", "rot2"] if n <= 4 else ["rev", "rot1", "rot2", "rot3", "swap01"])
        for pol in pols:
            deviations.append({site: pol} if True else None)
            if tier == "thorough" and pol == "rev" and (pi >= NV * len(TEMPLATES) or pi % NV == 0):
                # single-occurrence deviations (reversal only): the first 8 dynamic occurrences of each site (first and swapped variant of each template)
                for k in range(min(sites[site], 8)):
                    deviations.append({(site, k): pol})
                if sites[site] > 8:
                    res.extra["sites_with_more_than_8_occurrences"] += 1
    if tier == "thorough" and pi < NV * len(TEMPLATES) and pi % NV == 0:
        # every pair of deviating sites (first variant of each template)
        ss = sorted(sites, key=str)
        for a, b in itertools.combinations(ss, 2):
            deviations.append({a: "rev", b: "rev"})
    for di, dev in enumerate(deviations):
        key = json.dumps(sorted((str(k), v) for k, v in dev.items()))
        if only is not None and key != only:
            continue
        res.states += 1
        S.policy.clear()
        S.policy.update(dev)
        S.reset_run()
        try:
            got = _fresh_check(src)
        except Exception as e:
            S.policy.clear()
            res.violation({"kind": "schedule-crashes", "site": _site_name(dev), "exc": type(e).__name__}, dict(case0, policy=key, order=pi * 100000 + di), "schedule %s makes the check raise %r" % (key, e))
            continue
        S.policy.clear()
        res.transitions += 1
        res.validated += 1
        res.outcomes["sched:%s" % ("same" if got == base else "differs")] += 1
        if got != base:
            res.violation({"kind": "schedule-dependent-output", "site": _site_name(dev), "what": _what(base, got)}, dict(case0, policy=key, order=pi * 100000 + di),
                          "iterating the set at %s in another order changes the diagnostics of\n%s\n%s" % (key, src[len(PRE):], _diff(base, got)))
    res.sample({"program": src[len(PRE):], "choice_sites": len(sites), "schedules": len(deviations)})


def _site_name(dev):
    ks = sorted(str(k[0] if isinstance(k, tuple) and not isinstance(k[0], str) else (k[0] if isinstance(k, tuple) and k[0] != "pop" else k)) for k in dev)
    # keep file:line, drop the column
    out = []
    for k in ks:
        parts = k.replace("('pop', '", "pop:").replace("')", "").split(":")
        out.append(":".join(parts[:-1]) if len(parts) >= 3 else k)
    return "+".join(sorted(set(out)))


def _in_child(fn):
    """run fn() in a forked child of the (still check-free) worker and return its picklable result: process-global state
    (module-level caches) is part of a history, so every history starts from a process in which nothing has been checked yet"""
    import pickle
    r, w = os.pipe()
    pid = os.fork()
    if pid == 0:
        try:
            os.close(r)
            try:
                out = ("ok", fn())
            except BaseException as e:
                import traceback
                out = ("exc", traceback.format_exc())
            with os.fdopen(w, "wb") as f:
                pickle.dump(out, f)
        finally:
            os._exit(0)
    os.close(w)
    with os.fdopen(r, "rb") as f:
        data = f.read()
    os.waitpid(pid, 0)
    status, val = pickle.loads(data)
    if status != "ok":
        raise RuntimeError("child failed:\n" + val)
    return val


# history alphabet as (template, variant): colliding pairs first (same template in two variants; the swapped variant spells the same unions in the other order)
HIST_ALPHA = [pidx(-12, 0), pidx(-11, 0), pidx(-9, 0), pidx(-8, 0), pidx(-7, 0), pidx(-6, 0), pidx(-5, 0), pidx(-4, 0), pidx(-1, 0), pidx(-1, "s"), pidx(8, 0), pidx(8, 1), pidx(0, 0), pidx(0, "s"), pidx(16, 0), pidx(16, 1), pidx(5, 0), pidx(5, "s"), pidx(-3, 0), pidx(-3, "s"),
              pidx(-14, 0), pidx(-13, 0),
              pidx(4, 0), pidx(4, 1), pidx(12, 0), pidx(12, 1)]


def _hist(res, tier, first, only=None):
    _install()
    import pa.run      # import pyanalyze in the parent; no check is run here
    progs = corpus(tier)
    k = 22 if tier == "quick" else 26
    alpha = [a for a in HIST_ALPHA[:k] if a < len(progs)]
    depth = 2 if tier == "quick" else 3

    def fresh_render(p):
        from pa.run import make_checker
        from props.c10_harvest import clear_typing_caches
        clear_typing_caches()
        return render_src(progs[p], make_checker())
    fresh = {p: _in_child(lambda p=p: fresh_render(p)) for p in alpha}
    res.transitions += len(alpha)
    seqs = []
    for d in range(1, depth + 1):
        for rest in itertools.product(alpha, repeat=d - 1):
            seqs.append((alpha[first],) + rest)

    def run_history(seq):
        from pa.run import check, make_checker
        from props.c10_harvest import clear_typing_caches
        ck = make_checker()
        out = []
        for h in list(seq) + alpha:
            clear_typing_caches()
            out.append(render_src(progs[h], ck))
        return out[len(seq):]
    for si, seq in enumerate(seqs):
        if only is not None and list(seq) != only[0]:
            continue
        outs = _in_child(lambda seq=seq: run_history(seq))
        res.transitions += len(seq) + len(alpha)
        for p, got in zip(alpha, outs):
            if only is not None and p != only[1]:
                continue
            res.states += 1
            res.validated += 1
            res.outcomes["hist:%s" % ("same" if got == fresh[p] else "differs")] += 1
            if got != fresh[p]:
                res.violation({"kind": "history-dependent-output", "what": _what(fresh[p], got), "template": str(tid(p)), "same_template_before": str(int(any(tid(h) == tid(p) and h != p for h in list(seq) + alpha[:alpha.index(p)])))},
                              {"mode": "hist", "seq": list(seq), "prog": p, "order": 10 ** 8 + first * 10000 + si},
                              "in a process that first checked programs %s (one shared Checker) and then the alphabet up to it, program %d renders differently than in a fresh process:\n%s\n%s"
                              % (list(seq), p, progs[p][len(PRE):], _diff(fresh[p], got)))
    res.sample({"history": list(seqs[-1]), "alphabet": alpha})


TYPING_PAIR = ("from typing import List, Union\ndef f(a: List[Union[str, int]]) -> None: ...\n",
               "from typing import List, Union\ndef g(l: List[bytes]) -> None: ...\ndef f(a: List[Union[int, str]]) -> None:\n    g(a)\n")


def _typing_cache(res):
    """the one history explored *without* clearing CPython's typing caches: H spells List[Union[str, int]], P spells List[Union[int, str]]"""
    _install()
    import pa.run  # noqa: F401

    def run(with_h):
        from pa.run import make_checker
        ck = make_checker()
        if with_h:
            render_src(TYPING_PAIR[0], ck)
        return render_src(TYPING_PAIR[1], ck)
    fresh = _in_child(lambda: run(False))
    got = _in_child(lambda: run(True))
    res.states += 1
    res.transitions += 3
    res.validated += 1
    res.outcomes["typing-cache:%s" % ("same" if got == fresh else "differs")] += 1
    if got != fresh:
        res.violation({"kind": "history-dependent-output-through-typing-cache", "what": _what(fresh, got)}, {"mode": "typing", "order": 5 * 10 ** 9},
                      "after a file that spells List[Union[str, int]], a file that spells List[Union[int, str]] renders differently (typing's subscription cache returns the first object):\n%s" % _diff(fresh, got))


SEED_SCRIPT = r'''
import sys, json, os
junk = [object() for _ in range(int(sys.argv[2]) * 3001)]
sys.path.insert(0, sys.argv[1])
sys.path.insert(0, os.environ.get("VERIF_REPO", "/repo"))
from props import c10
from pa.run import check, make_checker
out = []
ck = make_checker()
for src in c10.corpus(sys.argv[3]):
    out.append(c10.render_src(src, ck))
print(json.dumps(out))
'''


def _seeds(res, tier, only=None):
    root = os.path.dirname(os.path.dirname(os.path.abspath(__file__)))
    nseeds = 8 if tier == "quick" else 32
    procs = []
    for s in range(nseeds):
        if only is not None and s not in (0, only):
            continue
        env = dict(os.environ, PYTHONHASHSEED=str(s), PYTHONPATH=root, PYTHONDONTWRITEBYTECODE="1")
        procs.append((s, subprocess.Popen([sys.executable, "-c", SEED_SCRIPT, root, str(s % 4), tier], stdout=subprocess.PIPE, stderr=subprocess.PIPE, env=env, text=True)))
    outs = {}
    for s, p in procs:
        o, e = p.communicate(timeout=600)
        res.transitions += 1
        if p.returncode != 0:
            res.violation({"kind": "seed-run-crashes", "seed": str(s)}, {"mode": "seeds", "seed": s, "order": 10 ** 9 + s}, "subprocess under PYTHONHASHSEED=%d failed:\n%s" % (s, e[-600:]))
            continue
        outs[s] = json.loads(o.strip().split("\n")[-1])
    if 0 not in outs:
        return
    progs = corpus(tier)
    for s, out in outs.items():
        if s == 0:
            continue
        for pi, (a, b) in enumerate(zip(outs[0], out)):
            res.states += 1
            res.validated += 1
            res.outcomes["seeds:%s" % ("same" if a == b else "differs")] += 1
            if a != b:
                res.violation({"kind": "seed-dependent-output", "what": _what(a, b), "template": str(tid(pi))}, {"mode": "seeds", "seed": s, "prog": pi, "order": 10 ** 9 + s * 100 + pi},
                              "PYTHONHASHSEED=0 and PYTHONHASHSEED=%d render program %d differently:\n%s\n%s" % (s, pi, progs[pi][len(PRE):], _diff(a, b)))
    # conformance of the instrumentation: the instrumented identity run equals the uninstrumented seed-0 run
    _install()
    from pa.run import check, make_checker
    ck = make_checker()
    for pi, src in enumerate(progs):
        got = render_src(src, ck)
        res.validated += 1
        if got != outs[0][pi]:
            res.violation({"kind": "INSTRUMENTATION-NOT-CONFORMANT", "template": str(tid(pi))}, {"mode": "seeds", "seed": 0, "prog": pi, "order": 10 ** 9 + pi},
                          "instrumented identity run differs from the uninstrumented run on program %d: %s" % (pi, _diff(outs[0][pi], got)))
    res.sample({"seeds": sorted(outs), "programs": len(progs)})


HS_STEP = 30
HH_ROT = 12      # thorough: one history starting at every 12th program of the harvested corpus
HH_STEP = 6      # rotations per unit


def run_unit(unit):
    kind, tier, i = unit
    res = UnitResult()
    if kind in ("hsched", "hseeds", "hhist"):
        from props import c10_harvest as hv
        if kind == "hsched":
            hv.hsched(res, tier, i, i + HS_STEP, _install())
        elif kind == "hseeds":
            hv.hseeds(res, tier)
        else:
            _install()
            hv.hhist(res, tier, [i] if i < 0 else range(i, min(i + HH_ROT * HH_STEP, len(hv.hcorpus())), HH_ROT), _in_child)
        return res
    if kind == "typing":
        _typing_cache(res)
    elif kind == "sched":
        _sched(res, tier, i)
    elif kind == "hist":
        _hist(res, tier, i)
    else:
        _seeds(res, tier)
    return res


def replay(case):
    res = UnitResult()
    tier = "thorough"
    if case["mode"] in ("hsched", "hseeds", "hhist"):
        from props import c10_harvest as hv
        if case["mode"] == "hsched":
            hv.hsched(res, tier, case["prog"], case["prog"] + 1, _install(), only=(case["prog"], case.get("policy")))
        elif case["mode"] == "hseeds":
            hv.hseeds(res, tier, only=case["seed"])
        else:
            _install()
            hv.hhist(res, tier, [case["first"]], _in_child, only=(case["first"], case["prog"]))
        return list(res.viol.values())
    if case["mode"] == "typing":
        _typing_cache(res)
    elif case["mode"] == "sched":
        _sched(res, tier, case["prog"], only=case.get("policy"))
    elif case["mode"] == "hist":
        _hist(res, tier, HIST_ALPHA.index(case["seq"][0]), only=(case["seq"], case["prog"]))
    else:
        _seeds(res, "quick", only=case["seed"])
    return list(res.viol.values())


META = {
    "text": "Three exhaustive explorations over two corpora - 138 generated programs built to collide (46 templates, same names, two type vocabularies and a swapped-union variant each) and the ~905 programs of pyanalyze's own test-suite: every single-site (thorough: single-occurrence and two-site) deviation of set iteration order inside pyanalyze under a controlled scheduler; every check history up to depth 2/3 over 22/26 generated programs on a shared Checker, plus long histories over the harvested corpus (in order, reversed, thorough: rotations); and a fixed block of hash seeds in fresh uninstrumented subprocesses. All must render identical diagnostics (full message text) and identical inferred values.",
    "note": "Trusted: the AST instrumentation (conformance-checked against the uninstrumented run on every execution). Orders chosen in C code are only covered by the seed block.",
    "technique": "stateless exploration of set-iteration schedules under a controlled scheduler + explicit-state search over check histories + fixed seed block in fresh processes",
}
