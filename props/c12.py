"""C12 — the checker is total: no crash, no internal error, well-formed output (kind E)."""
import itertools
import re
import signal

from mc.core import UnitResult

ID = "C12"
PARTS = ['batch', 'value-op', 'harv']      # outcome classes every run must produce (guards against a part of the exploration silently not running)
RULE = ("state A = program: every expression form of the Python 3.12 grammar instantiated over an atom pool (depth 1 quick, depth 2 thorough) placed in every statement context "
        "(assignment targets/values, annotations plain and quoted, call arguments incl. * and **, decorators, defaults, base classes, subscripts, f-strings, comprehensions, lambda, "
        "match, with/for/async/await/yield, raise/assert/except, global/nonlocal/del), deliberately ill-typed, under three configurations (test defaults, all codes on, all off); "
        "state B = ordered pair of generated Values through can_assign, can_overlap (all modes), unite_values, substitute_typevars, is_assignable, str, hash, simplify; "
        "oracle: no exception escapes, no internal_error, every diagnostic has a registered code, a line inside the file, a column inside that line and a non-empty message")
ASSUMPTIONS = ["candidate programs are filtered with compile(); they live inside function bodies, so importing the module succeeds", "termination is decided with a per-batch time limit (300 s for 150 functions, 60 s for a single isolated function)"]
MAXTASKS = 6

ATOMS_A = ["1", '"a"', "x", "undefined_name", "[1]", "None"]
ATOMS_B = ["1", "x", "undefined_name", '"a"']
FORMS = (["{a} %s {b}" % op for op in ["+", "-", "*", "/", "//", "%", "**", "<<", ">>", "|", "^", "&", "@"]]
         + ["%s{a}" % op for op in ["-", "+", "~", "not "]]
         + ["{a} and {b}", "{a} or {b}"]
         + ["{a} %s {b}" % op for op in ["==", "!=", "<", "<=", ">", ">=", "is", "is not", "in", "not in"]]
         + ["{a} < {b} < {a}", "{a} if {b} else {a}", "{a}({b})", "{a}(*{b})", "{a}(**{b})", "{a}({b}, k={b})", "{a}()", "{a}.attr", "{a}.__class__", "{a}.real",
            "{a}[{b}]", "{a}[{b}:{b}]", "{a}[{b}, {b}]", "{a}[...]", "{a}[:]", "{a}[::{b}]", "(*{a}, {b})", "[*{a}]", "[{a}, {b}]", "({a}, {b})", "({a},)", "{{{a}, {b}}}",
            "{{{a}: {b}}}", "{{**{a}}}", "{{{a}: {b}, **{a}}}", "[w for w in {a}]", "[{b} for w in {a} if {b}]", "{{w for w in {a}}}", "{{w: {b} for w in {a}}}", "(w for w in {a})",
            "[w for w in {a} for u in {b}]", "lambda: {a}", "lambda p={b}: {a}", "lambda *p, **q: {a}", 'f"{{{a}}}"', 'f"{{{a}!r:>{{{b}}}}}"', 'f"{{{a}:>5}}"', 'f"{{{a}=}}"', 'f"{{{a}:d}}"',
            'f"{{{a}}}{{{b}}}"', "(v := {a})", "{a}", "b'x'", "...", "1j", "10**100", "-{a}.real", "{a} if {a} else {b} if {b} else {a}", "not {a} in {b}", "{a}[{b}][{b}]", "{a}.attr.attr2",
            "{a}({b})({b})", "await {a}", "(yield {a})", "(yield from {a})", "[*{a}, *{b}]", "{a}[{b}:{b}:{b}]", "{a} @ {b}", "{a} ** -{b}", "type({a})", "len({a})", "isinstance({a}, {b})",
            "{b} == len({a})", "{b} != len({a})", "{b} is len({a})", "{b} in (len({a}),)", "0 <= {b} < 3 == len({a})", "len({a}) == {b}", "{a}[::0]", "{a}[0:0:0]", '("\u65e5\u672c\u8a9e\u65e5\u672c\u8a9e", {a})', '"\u00e9" + {a}', "print({a}, sep={b})", "str({a})", "int({a})", "{a}.format({b})", '"%s" % {a}', '"%d %s" % ({a}, {b})', "super().{b}" if False else "super()", "__class__", "__name__"])
CONTEXTS = [
    "v = {e}", "v = w = {e}", "v, w = {e}", "v, *w = {e}", "[v, w] = {e}", "v = 0\n    v += {e}", "v = 0\n    v @= {e}", "v: int = {e}", "v: {e} = 1", 'v: "{q}" = 1', "v: {e}",
    "return {e}", "print({e})", "print(*{e})", "print(**{e})", "print(k={e})", "@{e}\n    def g(): pass", "def g(p={e}): pass", "def g(p: {e}): pass", 'def g(p: "{q}"): pass',
    "def g() -> {e}: pass", "def g(*p: {e}, **q: {e}): pass", "class K({e}): pass", "class K(metaclass={e}): pass", "class K:\n        a: {e} = 1\n        b = {e}",
    "d = {{}}\n    d[{e}] = 1", "({e}).attr = 1", "({e})[0] = 1", "del ({e})[0]", "del ({e}).attr", "assert {e}, {e}", "raise {e}", "raise ValueError from {e}",
    "with {e} as w: pass", "with {e}: pass", "for w in {e}: pass", "for w in {e}:\n        break\n    else:\n        pass", "if {e}: pass", "while {e}: break",
    "try:\n        pass\n    except {e}:\n        pass", "try:\n        pass\n    except* {e}:\n        pass", "match {e}:\n        case 1: pass\n        case [a, *r]: pass\n        case {{'k': v}}: pass\n        case str() as s: pass\n        case _: pass",
    "match x:\n        case {e}.attr: pass\n        case _: pass", "lambda: {e}", "[{e} for w in [1]]", "v = [{e} for w in {e}]", "global gg\n    gg = {e}",
    "def g():\n        nonlocal_v = {e}\n        def h():\n            nonlocal nonlocal_v\n            nonlocal_v = {e}", "async def g():\n        await {e}", "async def g():\n        async for w in {e}: pass",
    "async def g():\n        async with {e} as w: pass", "def g():\n        yield {e}", "def g():\n        yield from {e}", "x = {e}", "x += {e}", "({e})", "{e}; {e}", "v = {e}\n    reveal_type(v)",
    "v = {e}\n    v.attr = {e}", "type W = {e}", "def g[T: {e}](p: T): pass", "v = f\"{{{e}}}\"", "v = {e}\n    if isinstance(v, int): w = v\n    else: w = v", "import os\n    v = os.path.join({e})",
]


def expressions(tier):
    out = []
    for f in FORMS:
        for a in ATOMS_A:
            for b in ((ATOMS_B if tier == "thorough" else ATOMS_B[:3]) if "{b}" in f else ATOMS_B[:1]):
                e = f.format(a=a, b=b)
                if e not in out:
                    out.append(e)
    if tier == "thorough":
        d1 = out[::5]
        for f in FORMS[:60:2]:
            for a in d1[::7]:
                e = f.format(a="(" + a + ")", b="x")
                if e not in out:
                    out.append(e)
    return out


def programs(tier):
    """function sources `def run(x: int): ...`, filtered with compile()"""
    out = []
    exprs = expressions(tier)
    for ctx in CONTEXTS:
        for e in exprs:
            if "{q}" in ctx:
                if '"' in e or "\n" in e:
                    continue
                body = ctx.replace("{q}", e).replace("{e}", e) if "{e}" in ctx else ctx.replace("{q}", e)
            else:
                body = ctx.replace("{e}", e).replace("{{", "{").replace("}}", "}")
            if "{q}" in ctx:
                body = body.replace("{{", "{").replace("}}", "}")
            src = "def run(x: int):\n    " + body + "\n"
            out.append(src)
    return out


# module-level class bodies (they execute at import, so only values that evaluate are used): enum / NamedTuple / TypedDict / Protocol / dataclass / generic
# bodies have checks of their own (duplicate enum members, field defaults, ...)
CLASS_PRE = "import enum, dataclasses, typing\nfrom typing import NamedTuple, TypedDict, Protocol, Generic, TypeVar\nTT = TypeVar('TT')\n"
CLASS_HEADS = ["class K{n}(enum.Enum):", "class K{n}(enum.IntEnum):", "class K{n}(enum.Flag):", "class K{n}(str, enum.Enum):", "class K{n}(NamedTuple):", "class K{n}(TypedDict):",
               "class K{n}(Protocol):", "@dataclasses.dataclass\nclass K{n}:", "@dataclasses.dataclass(frozen=True)\nclass K{n}:", "class K{n}:", "class K{n}(Generic[TT]):", "class K{n}(int):",
               "class K{n}(Exception):"]
CLASS_VALUES = ["1", '"a"', "[1]", "[255, 0, 0]", '{{"k": 1}}', "{{1, 2}}", "(1, [2])", "None", "1.5", "()", "[]", "{{}}", "enum.auto()", "dataclasses.field(default=1)", "lambda self: 1", "len",
                "int", "typing.Any", "b'x'", "True"]
CLASS_BODIES = ["A = {v}", "A = {v}\n    B = {v}", "A = {v}\n    B = A", "A: int = {v}", "A: {v}", "A: int\n    B: int = {v}", "A = {v}, {v}", "A = B = {v}", "A = {v}\n    def m(self): return self.A",
                "_ignore_ = ['T']\n    A = {v}", "__slots__ = ()\n    A = {v}", "A = {v}\n    A = {v}"]


def class_programs():
    out = []
    n = 0
    for head in CLASS_HEADS:
        for body in CLASS_BODIES:
            for v in CLASS_VALUES:
                n += 1
                out.append(CLASS_PRE + (head.format(n=n) + "\n    " + body.replace("{v}", v) + "\n").replace("{{", "{").replace("}}", "}"))
    return out


def extra_programs():
    """module-level programs outside the two grammars: unannotated functions returning class objects (their shared type is computed through mro()), calls passing
    class objects to unannotated parameters (checked again by the final CallableTracker pass), self-referential containers"""
    classes = ["int", "type", "str", "object", "enum.Enum", "abc.ABCMeta", "type(None)", "enum.EnumMeta"]
    out = []
    n = 0
    for c1 in classes:
        for c2 in classes:
            n += 1
            out.append("import enum, abc\ndef xr%d(c):\n    if c:\n        return %s\n    return %s\n" % (n, c1, c2))
            out.append("import enum, abc\ndef xp%d(a):\n    pass\ndef xq%d():\n    xp%d(%s)\n    xp%d(%s)\n" % (n, n, n, c1, n, c2))
    # loops at module and class level (no function scope)
    out += ["XW0 = 0\nwhile True:\n    XW0 += 1\n    break\n", "class XWC:\n    while 1:\n        break\n    a = 1\n", "for XW1 in (1, 2):\n    while XW1:\n        break\nelse:\n    XW2 = 3\n",
            "class XWD:\n    for i in ():\n        pass\n    else:\n        j = 1\n    try:\n        k = 1\n    finally:\n        pass\n    with open('/dev/null') as fh:\n        pass\n"]
    out += ["XL1 = [1]\nXL1.append(XL1)\ndef xs1():\n    return XL1\n", "XD1 = {}\nXD1['k'] = XD1\ndef xs2():\n    return XD1['k']\n",
            "XL2 = [1]\nXL2.append([XL2])\ndef xs3(a=XL2):\n    for y in XL2:\n        print(y, a)\n"]
    return out


def _executes(src):
    """module-level programs must import: run the candidate once in a scratch namespace"""
    try:
        exec(compile(src, "<c12-class>", "exec"), {"__name__": "c12_scratch"})
        return True
    except BaseException:
        return False


_PROGS = {}


def _progs(tier):
    import warnings
    if tier not in _PROGS:
        good = []
        with warnings.catch_warnings():
            warnings.simplefilter("ignore")
            for src in programs(tier):
                try:
                    compile(src, "<c12>", "exec")
                except (SyntaxError, ValueError, OverflowError):
                    continue
                good.append(src)
            good.extend(src for src in class_programs() if _executes(src))
            good.extend(src for src in extra_programs() if _executes(src))
        _PROGS[tier] = good
    return _PROGS[tier]


BATCH = 150
CONFIGS = ["defaults", "all-on", "all-off"]


def bounds(tier):
    return {"expressions": len(expressions(tier)), "contexts": len(CONTEXTS), "programs": len(_progs(tier)), "configurations": 3, "value_pool": "C14 thorough pool + large unions"}


def units(tier):
    n = len(_progs(tier))
    return [("prog", tier, i, min(n, i + BATCH)) for i in range(0, n, BATCH)] + [("values", tier, i, 0) for i in range(8)] + [("harv", tier, i, i + HV_STEP) for i in range(0, 920, HV_STEP)] + ([("hang", tier, 0, 0)] if tier == "thorough" else [])


class _Timeout(Exception):
    pass


def _alarm(signum, frame):
    raise _Timeout()


def _checker(cfg):
    from pyanalyze.error_code import ErrorCode
    from pa.run import get_checker
    if cfg == "defaults":
        return get_checker()
    if cfg == "all-on":
        return get_checker("all-on", settings={c: True for c in ErrorCode})
    return get_checker("all-off", settings={c: False for c in ErrorCode})


def _exc_sig(tb_text):
    """(exception class, innermost pyanalyze frame) from a traceback text"""
    frames = re.findall(r'File "[^"]*/pyanalyze/([\w/]+\.py)", line \d+, in (\w+)', tb_text)
    m = re.search(r"Internal error: (\w+)\(", tb_text)
    last = tb_text.strip().split("\n")[-1]
    exc = m.group(1) if m else last.split(":")[0].strip()
    where = "%s:%s" % frames[-1] if frames else "?"
    if exc == "RecursionError":
        where = "(the innermost frame depends on the stack depth at which the recursion started)"
    return exc, where


def _check_batch(res, srcs, cfg, base, tier, harvested=False):
    import traceback
    import warnings
    from pyanalyze.error_code import ErrorCode
    from pa.run import check
    code = "".join(s.replace("def run(", "def run_%d(" % k, 1) for k, s in enumerate(srcs))
    offsets = []
    ln = 1
    for s in srcs:
        offsets.append(ln)
        ln += s.count("\n")
    lines = code.split("\n")
    old = signal.signal(signal.SIGALRM, _alarm)
    signal.alarm(300 if len(srcs) > 1 else 60)
    try:
        with warnings.catch_warnings():
            warnings.simplefilter("ignore")
            if harvested:
                from pa.run import test_module_factory
                fails = check(code, checker=_checker(cfg), module_factory=test_module_factory())
            else:
                fails = check(code, checker=_checker(cfg))
            # the passes that run after all files have been visited (unused-object / callable tracking): part of every real run
            fails = list(fails) + list(_checker(cfg).perform_final_checks() or [])
        signal.alarm(0)
    except _Timeout:
        signal.alarm(0)
        return "timeout", None
    except BaseException as e:
        signal.alarm(0)
        return "raised", traceback.format_exc()
    finally:
        signal.signal(signal.SIGALRM, old)
    res.transitions += 1
    registered = {c.name for c in ErrorCode}

    def owner(lineno):
        k = 0
        for i, o in enumerate(offsets):
            if o <= lineno:
                k = i
        return k
    for f in fails:
        res.validated += 1
        cname = f["code"].name if f.get("code") is not None else None
        lineno = f.get("lineno")
        col = f.get("col_offset")
        k = owner(lineno) if isinstance(lineno, int) else 0
        case = {"mode": "prog", "src": srcs[k], "cfg": cfg, "order": base + k, "harvested": harvested}
        if cname == "internal_error":
            if harvested and re.search(r'File "[0-9a-f]{32,}\.py"', f.get("description", "")):
                res.outcomes["harv:user-callback-raised"] += 1
                continue        # the exception was raised by code of the checked program that pyanalyze calls back (a CustomCheck, a decorator): not pyanalyze's failure
            exc, where = _exc_sig(f.get("description", ""))
            res.violation({"kind": "internal_error", "exc": exc, "where": where}, case, "internal_error (%s in %s) while checking [%s]\n%s" % (exc, where, cfg, srcs[k]))
            continue
        bad = None
        if cname not in registered:
            bad = "unregistered-code:%s" % cname
        elif not isinstance(lineno, int) or not (1 <= lineno <= len(lines)):
            bad = "line-outside-file"
        elif col is not None and not (0 <= col <= len(lines[lineno - 1])):
            bad = "column-outside-line"
        elif not f.get("description"):
            bad = "empty-message"
        if bad:
            res.violation({"kind": "malformed-diagnostic", "what": bad, "code": str(cname)}, case, "%s for diagnostic %s at %s:%s of [%s]\n%s" % (bad, cname, lineno, col, cfg, srcs[k]))
    return "ok", len(fails)


def _run_programs(res, tier, lo, hi, only_cfg=None):
    srcs = _progs(tier)[lo:hi]
    for cfg in CONFIGS:
        if only_cfg is not None and cfg != only_cfg:
            continue
        res.states += len(srcs)
        status, info = _check_batch(res, srcs, cfg, lo, tier)
        res.outcomes["batch:%s" % status] += 1
        if status == "ok":
            continue
        # isolate the culprit(s)
        for k, s in enumerate(srcs):
            st, inf = _check_batch(res, [s], cfg, lo + k, tier)
            if st == "raised":
                exc, where = _exc_sig(inf)
                res.violation({"kind": "exception-escapes", "exc": exc, "where": where}, {"mode": "prog", "src": s, "cfg": cfg, "order": lo + k},
                              "check() raised %s (in %s) under [%s] on\n%s" % (exc, where, cfg, s))
            elif st == "timeout":
                res.violation({"kind": "does-not-terminate"}, {"mode": "prog", "src": s, "cfg": cfg, "order": lo + k}, "check() did not finish within 60 s under [%s] on\n%s" % (cfg, s))
    if lo % (BATCH * 20) == 0 and srcs:
        res.sample({"program": srcs[len(srcs) // 2]})


def value_pool():
    from props import c14
    from pyanalyze.value import GenericValue, KnownValue, MultiValuedValue, SequenceValue, TypedValue
    P = c14.pool("thorough")
    K = KnownValue
    P += [MultiValuedValue([K(i) for i in range(12)]), MultiValuedValue([K(str(i)) for i in range(10)] + [TypedValue(int)]), MultiValuedValue([K(i) for i in range(10)] + [K(None)]),
          K({1}), K(([],)), K({"a": []}), K(object()), K(len), K(int), K(type), SequenceValue(tuple, [(False, K([])), (True, TypedValue(int))]), GenericValue(list, [K([])])]
    return P


def _values(res, tier, shard, only=None):
    from pyanalyze.value import OverlapMode, unite_values
    from pa.run import get_checker
    from props import c14
    ck = get_checker()
    P = value_pool()
    maps = c14.tv_maps()[::6]
    n = len(P)
    for i in range(n):
        if i % 8 != shard:
            continue
        a = P[i]
        for j in range(n):
            if only is not None and [i, j] != only:
                continue
            b = P[j]
            res.states += 1
            ops = [("can_assign", lambda: a.can_assign(b, ck)), ("is_assignable", lambda: a.is_assignable(b, ck)), ("unite_values", lambda: unite_values(a, b)),
                   ("str", lambda: str(unite_values(a, b))), ("hash", lambda: hash(unite_values(a, b))), ("simplify", lambda: unite_values(a, b).simplify()),
                   ("eq", lambda: a == b)]
            for mode in OverlapMode:
                ops.append(("can_overlap:" + mode.name, lambda mode=mode: a.can_overlap(b, ck, mode)))
            for mi, m in enumerate(maps):
                ops.append(("substitute_typevars", lambda m=m: unite_values(a, b).substitute_typevars(m)))
            for name, op in ops:
                res.transitions += 1
                res.validated += 1
                try:
                    op()
                    res.outcomes["value-op:returns"] += 1
                except Exception as e:
                    import traceback
                    exc, where = _exc_sig(traceback.format_exc())
                    res.outcomes["value-op:raises"] += 1
                    res.violation({"kind": "value-api-raises", "op": name.split(":")[0], "exc": type(e).__name__, "where": where}, {"mode": "values", "pair": [i, j], "order": 10 ** 9 + i * n + j},
                                  "%s(%s, %s) raised %r" % (name, a, b, e))
    res.sample({"a": str(P[shard]), "b": str(P[-1 - shard])}, limit=1)


# ---- ill-formed variants of realistic programs: the test-suite programs (ref/harvest.py) with one function-body statement deleted / two adjacent ones swapped
HV_STEP = 30


def harvest_variants(src):
    """[(label, source)]: the program itself and every variant obtained by deleting one statement of a function body (or of a block nested in
    one) or swapping two adjacent ones.  Function bodies do not run at import, so every variant can be loaded."""
    import ast
    out = [("orig", src)]
    try:
        tree = ast.parse(src)
    except SyntaxError:
        return out
    blocks = []
    for fn in ast.walk(tree):
        if isinstance(fn, (ast.FunctionDef, ast.AsyncFunctionDef)):
            for node in ast.walk(fn):
                for field in ("body", "orelse", "finalbody"):
                    b = getattr(node, field, None)
                    if isinstance(b, list) and b and isinstance(b[0], ast.stmt) and not any(b is x for x in blocks):
                        blocks.append(b)
    for bi, b in enumerate(blocks):
        for i in range(len(b)):
            saved = list(b)
            del b[i]
            if not b:
                b.append(ast.Pass())
            try:
                out.append(("del:%d:%d" % (bi, i), ast.unparse(tree) + "\n"))
            except Exception:
                pass
            b[:] = saved
            if i + 1 < len(b):
                b[i], b[i + 1] = b[i + 1], b[i]
                try:
                    out.append(("swap:%d:%d" % (bi, i), ast.unparse(tree) + "\n"))
                except Exception:
                    pass
                b[:] = saved
    good = []
    for label, v in out:
        try:
            compile(v, "<c12h>", "exec")
            good.append((label, v))
        except (SyntaxError, ValueError):
            pass       # e.g. `nonlocal` / `return` left in a position where they are not allowed
    return good


def _hprogs():
    # programs that implement a pyanalyze plug-in interface (CustomCheck) are left out: a deleted statement makes *their* callback break its contract
    from props.c10_harvest import hcorpus
    return [x for x in hcorpus() if "CustomCheck" not in x[1]]


def _harv(res, tier, lo, hi):
    H = _hprogs()
    for pi in range(lo, min(hi, len(H))):
        name, src, settings = H[pi]
        vs = harvest_variants(src)
        for cfg in (CONFIGS if tier == "thorough" else CONFIGS[:1]):
            for vi, (label, v) in enumerate(vs):
                res.states += 1
                st, inf = _check_batch(res, [v], cfg, 3 * 10 ** 8 + pi * 1000 + vi, tier, harvested=True)
                res.outcomes["harv:%s" % st] += 1
                if st == "raised":
                    exc, where = _exc_sig(inf)
                    if where in ("?", "analysis_lib.py:make_module"):
                        res.outcomes["harv:unloadable"] += 1
                        if label == "orig":
                            break      # the program itself cannot be imported in this harness (its test needs more context): nothing to check
                        continue       # this variant raises while it is imported (a function that runs at import was changed): not a program
                    res.violation({"kind": "exception-escapes", "exc": exc, "where": where, "family": "harvested"}, {"mode": "prog", "src": v, "cfg": cfg, "order": 3 * 10 ** 8 + pi * 1000 + vi, "harvested": True},
                                  "check() raised %s (in %s) under [%s] on a variant (%s) of test-suite program %s:\n%s" % (exc, where, cfg, label, name, v))
                elif st == "timeout":
                    res.violation({"kind": "does-not-terminate", "family": "harvested"}, {"mode": "prog", "src": v, "cfg": cfg, "order": 3 * 10 ** 8 + pi * 1000 + vi, "harvested": True},
                                  "check() did not finish within 60 s under [%s] on a variant (%s) of %s" % (cfg, label, name))
    if lo < len(H):
        res.sample({"harvested_program": H[lo][0], "variants": len(harvest_variants(H[lo][1]))})


HANG_PROGS = ["def run(x: int):\n    return 9 ** 9 ** 9\n", "def run(x: int):\n    return 2 ** 2 ** 40\n", "def run(x: int):\n    return 10 ** 10 ** 10 % 7\n"]
HANG_SCRIPT = r'''
import sys
sys.path.insert(0, sys.argv[1])
from pa.run import check
print("DONE", len(check(sys.argv[2])))
'''


def _hang(res, only=None):
    """constant folding of astronomically large powers: run in a subprocess that is killed after 20 s (the big-integer operation cannot be interrupted from Python)"""
    import os
    import subprocess
    import sys
    root = os.path.dirname(os.path.dirname(os.path.abspath(__file__)))
    for i, src in enumerate(HANG_PROGS):
        if only is not None and src != only:
            continue
        res.states += 1
        res.transitions += 1
        res.validated += 1
        env = dict(os.environ, PYTHONPATH=root)
        try:
            p = subprocess.run([sys.executable, "-c", HANG_SCRIPT, root, src], env=env, stdout=subprocess.PIPE, stderr=subprocess.PIPE, text=True, timeout=20)
            status = "finishes" if "DONE" in p.stdout else "fails"
        except subprocess.TimeoutExpired:
            status = "killed-after-20s"
        res.outcomes["hang:%s" % status] += 1
        if status != "finishes":
            res.violation({"kind": "does-not-terminate", "family": "huge-power", "status": status}, {"mode": "hang", "src": src, "order": 4 * 10 ** 8 + i},
                          "check() does not finish within 20 s on (the module imports instantly, CPython does not fold this constant):\n%s" % src)


def run_unit(unit):
    kind, tier, lo, hi = unit
    res = UnitResult()
    if kind == "hang":
        _hang(res)
        return res
    if kind == "harv":
        _harv(res, tier, lo, hi)
        return res
    if kind == "prog":
        _run_programs(res, tier, lo, hi)
    else:
        _values(res, tier, lo)
    return res


def replay(case):
    res = UnitResult()
    if case["mode"] == "hang":
        _hang(res, only=case["src"])
        return list(res.viol.values())
    if case["mode"] == "prog":
        status, info = _check_batch(res, [case["src"]], case["cfg"], case.get("order", 0), "quick", harvested=bool(case.get("harvested")))
        if status == "raised":
            exc, where = _exc_sig(info)
            res.violation({"kind": "exception-escapes", "exc": exc, "where": where}, case, "check() raised %s" % exc)
        elif status == "timeout":
            res.violation({"kind": "does-not-terminate"}, case, "timeout")
    else:
        i, j = case["pair"]
        _values(res, "quick", i % 8, only=[i, j])
    return list(res.viol.values())


META = {
    "text": "Every program of the bounded grammar (about 110 expression forms x 24 atom pairs x 64 statement contexts, filtered by compile(); depth-2 expressions in thorough) is checked by "
            "the real visitor under three configurations, 150 functions per module, with isolation of any batch that raises or times out; every diagnostic is validated for "
            "well-formedness. All ordered pairs of a 100+-value pool go through the public value operations.",
    "note": "Termination is decided by a time limit. The grammar is broad but finite: constructs outside it are not covered.",
    "technique": "bounded exhaustive enumeration of programs (expression form x context x configuration) and value pairs against the real checker, oracle = totality and well-formedness invariants",
}
