"""C16 — automatic fixes are safe: valid code, error gone, nothing else changed (kind S over file texts)."""
import ast
import itertools

from mc.core import UnitResult

ID = "C16"
PARTS = ['fix', 'ign', 'patch-alone', 'hign']      # outcome classes every run must produce (guards against a part of the exploration silently not running)
RULE = ("state = file text; transitions = apply one proposed Replacement (the first, as autofix does) with the real _apply_changes_to_lines, or one add-ignores step; the full reachable "
        "graph of every generated program is explored up to the fixpoint (revisited text or more than 2*#diagnostics+2 steps = non-termination). Programs: fix-bearing fragments "
        "(use_fstrings, missing_f, unused variable, too_many_positional_args, unused ignore) x enclosing statement shapes (return, dict display with ** unpacking, keyword-only "
        "default, call with * and **, comprehension, lambda, multi-line call, first/last statement, two per line); add-ignores: the C11 base programs with unused_ignore on/off. "
        "Oracle: s' parses; the AST difference between s and s' is confined to the diagnosed node; the functions return the same results on all inputs; the fixed diagnostic is gone "
        "and no other diagnostic appears; add-ignores reaches D = {} with an unchanged AST and every added comment is needed")
ASSUMPTIONS = ["behavioural equality is judged on a fixed input set per program", "Replacement objects are read from BaseNodeVisitor._changes_for_fixer as check_for_test(apply_changes=True) does"]
MAXTASKS = 20
MARK = "# static analysis: ignore"

# fragments: (expression or statement text, kind, diagnostic code)
EXPR_FRAGS = [('"%s x" % a', "use_fstrings"), ('"%d %s" % (a, b)', "use_fstrings"), ('"{a} x"', "missing_f"), ('"%s" % (a,)', "use_fstrings"), ('"x %s y %s" % (b, a)', "use_fstrings"),
              ("g3(a, b, 3)", "too_many_positional_args"), ("g3po(a, b, 3)", "too_many_positional_args"),
              # equal arguments, equal literals: a fix that maps arguments to parameter names must keep them apart
              ("g3(a, a, 3)", "too_many_positional_args"), ("g3(1, 1, 1)", "too_many_positional_args"), ("g3(b, a, a)", "too_many_positional_args"),
              # text after the last specifier incl. a newline escape; escaped braces next to a real field; a tuple-valued single argument
              ('"%s!\\n" % a', "use_fstrings"), ('"<%s>\\n" % (b,)', "use_fstrings"), ('"{a} {{b}}"', "missing_f"), ('"%s" % (t,)', "use_fstrings")]
SHAPES = ["return {e}", "v = {{**d, 'k': {e}}}\n    return v", "def inner(*, p={e}, q):\n        return (p, q)\n    return inner(q=1)", "return h({e}, *t, **d)",
          "return [{e} for _ in t]", "w = lambda: {e}\n    return w()", "return h(\n        {e},\n        b,\n    )", "v = {e}\n    return v", "return ({e}, {e})",
          "if a:\n        return {e}\n    return None", "try:\n        return {e}\n    finally:\n        pass", "return {{'k': {e}, **d}}", "x = 1\n    return {e}",
          "@dec({e})\n    def inner():\n        return 1\n    return inner()", "class K:\n        attr = {e}\n    return K.attr", "assert a is not None, {e}\n    return 1", "return h(k={e})",
          # several statements on one physical line, a backslash continuation, a trailing comment, a case body
          "x = 1; v = {e}; return (x, v)", "v = 1, \\\n        {e}\n    return v", "v = {e}  # note\n    return v", "match a:\n        case 1:\n            return {e}\n    return None",
          "v = (\n        {e}\n    )\n    return v"]
STMT_PROGS = [
    ("def f(a, b, d, t):\n    unused = a\n    return b\n", "unused_variable"),
    ("def f(a, b, d, t):\n    x, y = a, b\n    return x\n", "unused_variable"),
    ("def f(a, b, d, t):\n    return [b for unused in t]\n", "unused_variable"),
    ("def f(a, b, d, t):\n    u1 = a; u2 = b\n    return 1\n", "unused_variable"),
    # chained / augmented / annotated / walrus assignments where only some of the names are unused
    ("def f(a, b, d, t):\n    y = z = a\n    return z\n", "unused_variable"),
    ("def f(a, b, d, t):\n    z = y = a\n    return z\n", "unused_variable"),
    ("def f(a, b, d, t):\n    y = z = w = b\n    return (z, w)\n", "unused_variable"),
    ("def f(a, b, d, t):\n    y: int = a\n    return b\n", "unused_variable"),
    ("def f(a, b, d, t):\n    z = (y := a)\n    return z\n", "unused_variable"),
    ("def f(a, b, d, t):\n    y = h(a)\n    return b\n", "unused_variable"),
    ("def f(a, b, d, t):\n    if a:\n        unused = b\n    return a\n", "unused_variable"),
    ("def f(a, b, d, t):\n    for unused in t:\n        pass\n    return a\n", "unused_variable"),
    ("def f(a, b, d, t):\n    with open('/dev/null') as unused:\n        return a\n", "unused_variable"),
    ("def f(a, b, d, t):\n    y = d.setdefault('q', 5)\n    return sorted(d)\n", "unused_variable"),
    ("def f(a, b, d, t):\n    x = 1; y = 2\n    return x\n", "unused_variable"),
    ("def f(a, b, d, t):\n    y = \'\'\'q\n    r\'\'\'\n    return b\n", "unused_variable"),
    ("def f(a, b, d, t):\n    if a: y = 2\n    return b\n", "unused_variable"),
    ("def f(a, b, d, t):\n\ty = 2\n\treturn b\n", "unused_variable"),
    ("def f(a, b, d, t):\n    return a  " + MARK + "[undefined_name]\n", "unused_ignore"),
    ("def f(a, b, d, t):\n    " + MARK + "[undefined_name]\n    return a\n", "unused_ignore"),
    ("def f(a, b, d, t):\n    return a  " + MARK + "\n", "unused_ignore"),
    # an awaitable that is not awaited: in an async def, in a plain def nested in an async def, in a method of a class local to an async def, in a lambda-free nested async def
    ("async def coro(x):\n    return x\ndef f(a, b, d, t):\n    async def outer():\n        coro(a)\n        return b\n    return 1\n", "missing_await"),
    ("async def coro(x):\n    return x\ndef f(a, b, d, t):\n    async def outer():\n        def inner():\n            coro(a)\n            return b\n        return inner()\n    return 1\n", "missing_await"),
    ("async def coro(x):\n    return x\ndef f(a, b, d, t):\n    async def outer():\n        class K:\n            def m(self):\n                coro(a)\n        return K\n    return 1\n", "missing_await"),
    ("async def coro(x):\n    return x\ndef f(a, b, d, t):\n    def plain():\n        async def inner():\n            coro(a)\n        return inner\n    return 1\n", "missing_await"),
]
PRE = ("def h(*args, **kw):\n    return (args, tuple(sorted(kw.items())))\ndef g3(p, q, r):\n    return (p, q, r)\ndef g3po(p, q, /, r):\n    return (p, q, r)\n"
       "def dec(x):\n    return lambda fn: fn\n")
# well-typed inputs for the fragments (a: int, b: str): "%d %s" % (a, b) and f"{a} {b}" agree on them
INPUTS = [(1, "s", {"z": 1}, (1, 2)), (0, "t", {}, ()), (-5, "", {"k": 0}, (3,))]


def fix_programs(tier):
    out = []
    for (e, code), shape in itertools.product(EXPR_FRAGS, SHAPES):
        body = shape.replace("{e}", e).replace("{{", "{").replace("}}", "}")
        out.append((PRE + "def f(a, b, d, t):\n    " + body + "\n", code))
    out += [(PRE + s, c) for s, c in STMT_PROGS]
    if tier == "thorough":
        for (e1, c1), (e2, c2) in itertools.permutations(EXPR_FRAGS[:5], 2):
            for shape in SHAPES[:6]:
                body = shape.replace("{e}", e1).replace("{{", "{").replace("}}", "}")
                out.append((PRE + "def f(a, b, d, t):\n    v0 = " + e2 + "\n    h(v0)\n    " + body + "\n", c1))
    return out


def ignore_programs(tier):
    from props import c11
    sels = [s for s in c11.base_programs("quick") if s[0] == 0 and len(s) <= 3]
    if tier == "quick":
        sels = [s for s in sels if len(s) <= 2] + [s for s in sels if len(s) == 3][:40]
    return [(sel, u) for sel in sels for u in (False, True)]


def bounds(tier):
    return {"fix_programs": len(fix_programs(tier)), "add_ignores_programs": len(ignore_programs(tier)), "inputs_per_program": len(INPUTS)}


def units(tier):
    nf = len(fix_programs(tier))
    ni = len(ignore_programs(tier))
    return [("fix", tier, i, min(nf, i + 10)) for i in range(0, nf, 10)] + [("ign", tier, i, min(ni, i + 10)) for i in range(0, ni, 10)] + [("hign", tier, i, i + HI_STEP) for i in range(0, 920, HI_STEP)]


def _step(src, settings_key, settings, add_ignores=False, extra=(), factory=None):
    """one check with change capture: returns (diagnostics, list of Replacement, text after applying the first change)"""
    import collections
    import qcore
    from pyanalyze.analysis_lib import make_module
    from pyanalyze.name_check_visitor import ClassAttributeChecker, NameCheckVisitor
    from pa.run import cleanup_module, get_checker
    import contextlib
    import io
    ck = get_checker(settings_key, settings=settings, extra=extra)
    tree = ast.parse(src)
    mod = (factory or make_module)(src)
    try:
        changes = collections.defaultdict(list)
        with contextlib.redirect_stderr(io.StringIO()), contextlib.redirect_stdout(io.StringIO()):
            with ClassAttributeChecker(enabled=True, options=ck.options) as ac:
                v = NameCheckVisitor(mod.__name__, src, tree, module=mod, attribute_checker=ac, checker=ck, add_ignores=add_ignores)
                with qcore.override(NameCheckVisitor, "_changes_for_fixer", changes):
                    fails = v.check()
        reps = list(changes.get(v.filename, []))
        lines = [l + "\n" for l in src.splitlines()]
        new = "".join(NameCheckVisitor._apply_changes_to_lines(reps, lines)) if reps else src
    finally:
        cleanup_module(mod)
    diags = sorted((f["code"].name, f.get("lineno"), f.get("col_offset")) for f in fails)
    return diags, reps, new


def _run_f(src):
    ns = {}
    exec(compile(src, "<c16>", "exec"), ns)
    out = []
    for inp in INPUTS:
        try:
            r = ns["f"](*inp)
            if callable(r):
                r = "<callable>"
            out.append(("ok", repr(r)))
        except Exception as e:
            out.append(("exc", type(e).__name__))
    return out


def _ast_diff(t1, t2):
    """top-most differing subtree pairs; several differing fields of one expression node count as one difference at that node"""
    if type(t1) is not type(t2):
        return [(t1, t2)]
    if isinstance(t1, ast.AST):
        diffs = []
        nfields = 0
        for f in t1._fields:
            d = _ast_diff(getattr(t1, f, None), getattr(t2, f, None))
            if d:
                nfields += 1
            diffs += d
        if isinstance(t1, ast.expr) and nfields > 1:
            return [(t1, t2)]
        return diffs
    if isinstance(t1, list):
        if len(t1) != len(t2):
            return [(t1, t2)]
        out = []
        for a, b in zip(t1, t2):
            out += _ast_diff(a, b)
        return out
    return [] if t1 == t2 else [(t1, t2)]


def _settings():
    from pyanalyze.error_code import ErrorCode
    return {ErrorCode.missing_f: True, ErrorCode.use_fstrings: True, ErrorCode.too_many_positional_args: True, ErrorCode.unused_ignore: True, ErrorCode.bare_ignore: False}


def _fix(res, tier, lo, hi):
    from pyanalyze.signature import MaximumPositionalArgs
    progs = fix_programs(tier)[lo:hi]
    extra = (MaximumPositionalArgs(2, from_command_line=True),)
    for pi, (src, code) in enumerate(progs):
        order = lo + pi
        case = {"mode": "fix", "src": src, "code": code, "order": order}
        seen = [src]
        cur = src
        D0, reps, new = _step(cur, "c16fix", _settings(), extra=extra)
        res.transitions += 1
        limit = 2 * len(D0) + 2
        steps = 0
        shape = src[len(PRE):].split("\n", 2)[1].strip()[:40] if src.startswith(PRE) else src[:40]
        frag = code
        # every proposed patch on its own (what interactive -f lets the user accept), judged once from the initial text
        for ri in range(1, len(reps)):
            from pyanalyze.name_check_visitor import NameCheckVisitor
            lines0 = [l + "\n" for l in cur.splitlines()]
            alt = "".join(NameCheckVisitor._apply_changes_to_lines([reps[ri]], lines0))
            if alt == cur:
                continue
            res.states += 1
            res.validated += 1
            problems = []
            if not _parses(alt):
                problems.append("result-does-not-parse")
            else:
                if len(_ast_diff(ast.parse(cur), ast.parse(alt))) > 1:
                    problems.append("ast-changed-in-several-places")
                code_i = _code_of_first([reps[ri]], D0)
                try:
                    if code_i != "missing_f" and _run_f(cur) != _run_f(alt):
                        problems.append("behaviour-changed")
                except Exception as e:
                    problems.append("result-does-not-import:" + type(e).__name__)
            res.outcomes["patch-alone:%s" % ("safe" if not problems else "unsafe")] += 1
            if problems:
                res.violation({"kind": "unsafe-fix", "fix": str(_code_of_first([reps[ri]], D0)), "problems": "+".join(problems), "shape": _shape_of(src), "patch": "alone"}, case,
                              "accepting only patch %d of %d on\n%s\ngives\n%s\nproblems: %s" % (ri + 1, len(reps), cur, alt, problems))
        while reps and new != cur:
            res.states += 1
            steps += 1
            D1, reps1, new1 = _step(new, "c16fix", _settings(), extra=extra) if _parses(new) else ([], [], new)
            res.transitions += 1
            res.validated += 1
            fixed_code = _code_of_first(reps, D0)
            problems = []
            if not _parses(new):
                problems.append("result-does-not-parse")
            else:
                # AST difference confined to one place
                diffs = _ast_diff(ast.parse(cur), ast.parse(new))
                if len(diffs) > 1:
                    problems.append("ast-changed-in-%d-places" % len(diffs))
                try:
                    # missing_f is the one fix whose purpose is a behavioural change (the string was not interpolated before)
                    if fixed_code != "missing_f" and _run_f(cur) != _run_f(new):
                        problems.append("behaviour-changed")
                except Exception as e:
                    problems.append("result-does-not-import:" + type(e).__name__)
                c0 = sum(1 for d in D0 if d[0] == fixed_code)
                c1 = sum(1 for d in D1 if d[0] == fixed_code)
                if fixed_code and c1 >= c0:
                    problems.append("diagnostic-still-reported")
                new_codes = {d[0] for d in D1} - {d[0] for d in D0}
                if new_codes:
                    problems.append("new-diagnostics:" + ",".join(sorted(new_codes)))
            res.outcomes["fix:%s" % ("safe" if not problems else "unsafe")] += 1
            if problems:
                res.violation({"kind": "unsafe-fix", "fix": str(fixed_code), "problems": "+".join(problems), "shape": _shape_of(src)}, case,
                              "applying the proposed %s fix to\n%s\ngives\n%s\nproblems: %s" % (fixed_code, cur, new, problems))
                break
            if new in seen or steps > limit:
                res.violation({"kind": "fix-loop-does-not-terminate", "fix": str(fixed_code), "shape": _shape_of(src)}, case, "fix iteration revisits a text / exceeds %d steps:\n%s" % (limit, new))
                break
            seen.append(new)
            cur, D0, reps, new = new, D1, reps1, new1
        if not steps:
            res.outcomes["fix:no-fix-proposed"] += 1
        if order % 23 == 0:
            res.sample({"program": src[len(PRE):] if src.startswith(PRE) else src, "steps": steps, "final": cur[len(PRE):] if cur.startswith(PRE) else cur})


def _shape_of(src):
    body = src[len(PRE):] if src.startswith(PRE) else src
    # properties of the fragment / statement itself come first: they name the root cause whatever the surrounding shape is
    for key, name in (("@dec", "decorator"), ("\\n\" %", "text-before-newline-escape"), ("; ", "two-per-line"), ("y = \'\'\'", "multiline-string-value")):
        if key in body:
            return name
    for key, name in ((":=", "walrus"), ("if a:\n        unused", "sole-statement-of-block"), (" = z = ", "chained-assignment"), ("z = y = ", "chained-assignment"), ("@dec", "decorator"), ("g3po", "posonly-callee"), ("**d, 'k'", "dict-unpack-first"), ("'k': ", "dict-unpack-last"), ("def inner(*", "kwonly-default"), ("*t, **d", "star-call"), ("for _ in t", "comprehension"), ("lambda", "lambda"),
                      ("h(\n", "multiline-call"), ("@dec", "decorator"), ("g3po", "posonly-callee"), ("class K", "class-attr"), ("assert", "assert-msg"), ("finally", "try-finally"), ("if a:", "if"), ("({", "tuple-two"), ("; ", "two-per-line"), (MARK, "ignore-comment"), ("v0 = ", "two-fixes")):
        if key in body:
            return name
    return "plain"


def _parses(s):
    """valid code = accepted by the compiler (ast.parse alone accepts e.g. a repeated keyword argument)"""
    try:
        compile(s, "<c16>", "exec")
        return True
    except (SyntaxError, ValueError):
        return False


def _code_of_first(reps, D):
    """the diagnostic code the first replacement belongs to: matched through the line it edits"""
    r = reps[0]
    lines = set(r.linenos_to_delete)
    for c, l, col in D:
        if l in lines:
            return c
    return D[0][0] if D else None


def _ign(res, tier, lo, hi):
    from pyanalyze.error_code import ErrorCode
    from props import c11
    progs = ignore_programs(tier)[lo:hi]
    for pi, (sel, unused_on) in enumerate(progs):
        order = 10 ** 6 + lo + pi
        src = "\n".join(c11.render(sel)) + "\n"
        settings = {ErrorCode.unused_ignore: unused_on, ErrorCode.bare_ignore: False}
        key = "c16ign%s" % unused_on
        case = {"mode": "ign", "sel": list(sel), "unused_on": unused_on, "order": order}
        D0, reps, new = _step(src, key, settings, add_ignores=True)
        res.transitions += 1
        if not D0:
            continue
        res.states += 1
        limit = 2 * len(D0) + 2
        seen = [src]
        cur = src
        steps = 0
        two_codes = len({(l) for c, l, col in D0}) < len({(c, l) for c, l, col in D0})
        feats = {"two_codes_one_line": str(int(two_codes)), "line1": str(int(any(l == 1 for c, l, col in D0))), "unused_on": str(int(unused_on)),
                 "in_string": str(int(any(c11.MARK in l and "print(" in l for l in src.split("\n"))))}
        ok = True
        while reps and new != cur:
            steps += 1
            if new in seen or steps > limit:
                res.violation(dict({"kind": "add-ignores-does-not-terminate"}, **feats), case, "add-ignores does not reach a fixpoint within %d steps on\n%s\ncurrent text:\n%s" % (limit, src, new))
                ok = False
                break
            seen.append(new)
            cur = new
            D1, reps, new = _step(cur, key, settings, add_ignores=True)
            res.transitions += 1
        res.validated += 1
        if not ok:
            res.outcomes["ign:diverges"] += 1
            continue
        Df, _, _ = _step(cur, key, settings)
        problems = []
        if Df:
            problems.append("diagnostics-remain:" + ",".join(sorted({d[0] for d in Df})))
        if ast.dump(ast.parse(cur)) != ast.dump(ast.parse(src)):
            problems.append("ast-changed")
        # every added comment is needed: deleting it re-exposes exactly one diagnostic
        cl = cur.split("\n")
        added = [i for i, l in enumerate(cl) if c11.MARK in l and l.strip().startswith("#")]
        for i in added:
            without = "\n".join(cl[:i] + cl[i + 1:])
            Dw, _, _ = _step(without, key, settings)
            res.transitions += 1
            core = [d for d in Dw if d[0] != "unused_ignore"]
            if len(core) != 1:
                problems.append("comment-suppresses-%d-diagnostics" % len(core))
                break
        res.outcomes["ign:%s" % ("clean-fixpoint" if not problems else "bad-fixpoint")] += 1
        if problems:
            res.violation(dict({"kind": "add-ignores-bad-fixpoint", "problems": "+".join(p.split(":")[0] for p in problems)}, **feats), case,
                          "add-ignores on\n%s\nends after %d steps in\n%s\nproblems: %s" % (src, steps, cur, problems))
        if (lo + pi) % 37 == 0:
            res.sample({"program": src, "after_add_ignores": cur, "steps": steps})


# ---- add-ignores on the programs of pyanalyze's own test-suite that have diagnostics (ref/harvest.py) -------------------------------------------
HI_STEP = 40


def _hprogs():
    from props.c10_harvest import hcorpus
    return [x for x in hcorpus() if MARK not in x[1]]


def _hign(res, tier, lo, hi, only=None):
    from pyanalyze.error_code import ErrorCode
    from pa.run import test_module_factory
    H = _hprogs()
    fac = test_module_factory()
    for pi in range(lo, min(hi, len(H))):
        name, src, st = H[pi]
        if only is not None and name != only:
            continue
        settings = {getattr(ErrorCode, k): v for k, v in (st or {}).items()}
        settings.update({ErrorCode.unused_ignore: False, ErrorCode.bare_ignore: False})
        key = "c16h" + repr(sorted((k.name, v) for k, v in settings.items()))
        case = {"mode": "hign", "name": name, "order": 2 * 10 ** 6 + pi}
        try:
            D0, reps, new = _step(src, key, settings, add_ignores=True, factory=fac)
        except Exception:
            res.outcomes["hign:unloadable"] += 1
            continue
        res.transitions += 1
        if not D0:
            res.outcomes["hign:no-diagnostics"] += 1
            continue
        res.states += 1
        limit = 2 * len(D0) + 2
        seen, cur, steps, ok = [src], src, 0, True
        codes = ",".join(sorted({d[0] for d in D0}))
        two_codes = str(int(len({l for c, l, col in D0}) < len({(c, l) for c, l, col in D0})))
        while reps and new != cur:
            steps += 1
            if new in seen or steps > limit or not _parses(new):
                res.violation({"kind": "add-ignores-does-not-terminate" if _parses(new) else "add-ignores-breaks-syntax", "family": "harvested", "codes": codes, "two_codes_one_line": two_codes}, case,
                              "add-ignores on test-suite program %s %s after %d steps; current text:\n%s" % (name, "does not reach a fixpoint" if _parses(new) else "produces text that does not compile", steps, new))
                ok = False
                break
            seen.append(new)
            cur = new
            D1, reps, new = _step(cur, key, settings, add_ignores=True, factory=fac)
            res.transitions += 1
        res.validated += 1
        if not ok:
            res.outcomes["hign:diverges"] += 1
            continue
        Df, _, _ = _step(cur, key, settings, factory=fac)
        problems = []
        if Df:
            problems.append("diagnostics-remain:" + ",".join(sorted({d[0] for d in Df})))
        if ast.dump(ast.parse(cur)) != ast.dump(ast.parse(src)):
            problems.append("ast-changed")
        res.outcomes["hign:%s" % ("clean-fixpoint" if not problems else "bad-fixpoint")] += 1
        if problems:
            remaining = ",".join(sorted({d[0] for d in Df}))
            res.violation({"kind": "add-ignores-bad-fixpoint", "family": "harvested", "problems": "+".join(p.split(":")[0] for p in problems), "remaining": remaining}, case,
                          "add-ignores on test-suite program %s ends after %d steps with problems %s; text:\n%s" % (name, steps, problems, cur))
    res.sample({"harvested_range": [lo, hi]})


def run_unit(unit):
    kind, tier, lo, hi = unit
    res = UnitResult()
    if kind == "hign":
        _hign(res, tier, lo, hi)
    elif kind == "fix":
        _fix(res, tier, lo, hi)
    else:
        _ign(res, tier, lo, hi)
    return res


def replay(case):
    res = UnitResult()
    if case["mode"] == "hign":
        names = [n for n, _, _ in _hprogs()]
        i = names.index(case["name"])
        _hign(res, "quick", i, i + 1, only=case["name"])
        return list(res.viol.values())
    for tier in ("quick", "thorough"):
        if case["mode"] == "fix":
            ps = fix_programs(tier)
            idx = [i for i, (s, c) in enumerate(ps) if s == case["src"]]
            if idx:
                _fix(res, tier, idx[0], idx[0] + 1)
                break
        else:
            ps = ignore_programs(tier)
            idx = [i for i, (s, u) in enumerate(ps) if list(s) == case["sel"] and u == case["unused_on"]]
            if idx:
                _ign(res, tier, idx[0], idx[0] + 1)
                break
    return list(res.viol.values())


META = {
    "text": "For every generated program the whole chain of fix applications (first proposed Replacement, applied with the real _apply_changes_to_lines) and of add-ignores iterations is "
            "followed to its fixpoint; every transition is judged: result parses and imports, AST difference confined to one place, same results on all inputs, fixed diagnostic gone, "
            "no new diagnostic; add-ignores must terminate with no diagnostics, an unchanged AST and only needed comments.",
    "note": "Behavioural equality is judged on three input tuples per program; the explored graph is the autofix chain (first change), not every subset of patches.",
    "technique": "explicit-state search over file texts reachable by the real fix/add-ignores transitions, oracle = AST confinement + behavioural equality + diagnostic diff",
}
