"""C09 — name binding: reaching definitions and (possibly) undefined names (kind E, two oracles)."""
import ast
import collections
import re

from mc.core import UnitResult

ID = "C09"
PARTS = ['ok', 'nest3', 'same-file-independence']      # outcome classes every run must produce (guards against a part of the exploration silently not running)
RULE = ("state = statement skeleton over: v = <distinct literal>, use(v), if/else, while c()/while True/for with break/continue/else, try/except[/else]/finally, "
        "with (suppressing and non-suppressing context manager), return, raise — every skeleton up to the node bound; reported(use) = literals in the value the real visitor "
        "infers for v at the use (+unbound if an undefined_name/possibly_undefined_name diagnostic is emitted there); oracles: strict = exhaustive concrete execution under "
        "every environment answer sequence (conditions true/false/raise, calls return/raise, for-loops 0/1/2 iterations), liberal = static may-reach analysis with exception "
        "edges after every statement of a try/with body and loop exit after any iteration; required strict <= reported <= liberal")
ASSUMPTIONS = ["strict is a set of real observations (lower bound of the true strict set)", "nested functions appear as a closure read and a nonlocal write, each called right after its def; global and del are outside this grammar (see DESIGN.md)",
               "opaque calls c(), it(), use() are annotated so that pyanalyze cannot see through them"]
MAXTASKS = 8
UNB = "<unbound>"
PRE = '''
def c() -> bool: ...
def it() -> list[int]: ...
def use(x: object, k: int) -> None: ...
class CmS:
    def __enter__(self) -> None: ...
    def __exit__(self, *a: object) -> bool: ...
class CmN:
    def __enter__(self) -> None: ...
    def __exit__(self, *a: object) -> None: ...
'''
NPRE = PRE.count("\n")


# ---- skeleton enumeration ------------------------------------------------------------------------

def gen_block(depth, size, in_loop, memo={}):
    key = (depth, size, in_loop)
    if key in memo:
        return memo[key]
    out = []
    if size == 0:
        out = [()]
    else:
        for first in range(1, size + 1):
            for st in gen_stmt(depth, first, in_loop):
                for rest in gen_block(depth, size - first, in_loop):
                    out.append((st,) + rest)
    memo[key] = out
    return out


def gen_stmt(depth, size, in_loop, memo={}):
    key = (depth, size, in_loop)
    if key in memo:
        return memo[key]
    out = []
    if size == 1:
        out = [("asg",), ("use",), ("ret",), ("raise",), ("nuse",), ("nasg",)]
        if in_loop:
            out += [("brk",), ("cont",)]
    elif depth > 0:
        inner = size - 1
        for a in range(1, inner + 1):
            for b1 in gen_block(depth - 1, a, in_loop):
                for b2 in gen_block(depth - 1, inner - a, in_loop):
                    out.append(("if", b1, b2))
                    out.append(("try", b1, b2))
                    if b2:
                        out.append(("tryf", b1, b2))
        for a in range(1, inner - 1):
            for bb in range(1, inner - a):
                for b1 in gen_block(depth - 1, a, in_loop):
                    for b2 in gen_block(depth - 1, bb, in_loop):
                        for b3 in gen_block(depth - 1, inner - a - bb, in_loop):
                            out.append(("tryelse", b1, b2, b3))
        for b in gen_block(depth - 1, inner, in_loop):
            out.append(("withs", b))
            out.append(("withn", b))
        for b in gen_block(depth - 1, inner, True):
            out.append(("while", b, ()))
            out.append(("for", b, ()))
            out.append(("whileT", b))
        for a in range(1, inner):
            for b in gen_block(depth - 1, a, True):
                for e in gen_block(depth - 1, inner - a, in_loop):
                    out.append(("while", b, e))
                    out.append(("for", b, e))
    memo[key] = out
    return out


def _has_dead_tail(blk):
    for i, st in enumerate(blk):
        if st[0] in ("ret", "raise", "brk", "cont") and i + 1 < len(blk):
            return True
        for sub in st[1:]:
            if isinstance(sub, tuple) and _has_dead_tail(sub):
                return True
    return False


LOOPFREE = {"asg", "use", "ret", "raise", "if", "try", "tryelse", "tryf", "while", "for", "brk", "cont"}


def _has_loop_else(blk):
    for st in blk:
        if st[0] in ("while", "for") and st[2]:
            return True
        for sub in st[1:]:
            if isinstance(sub, tuple) and _has_loop_else(sub):
                return True
    return False


def _kinds(blk, acc):
    for st in blk:
        acc.add(st[0])
        for sub in st[1:]:
            if isinstance(sub, tuple):
                _kinds(sub, acc)
    return acc


def skeletons(tier):
    """quick: every skeleton with <= 4 nodes; thorough: additionally every 5-node skeleton over the loop-free, with-free constructs."""
    depth = 3
    out = []
    for size in range(2, 6 if tier == "thorough" else 5):
        for blk in gen_block(depth, size, False):
            flat = repr(blk)
            if ("'use'" not in flat and "'nuse'" not in flat) or ("'asg'" not in flat and "'nasg'" not in flat):
                continue
            if "'nasg'" in flat and "'asg'" not in flat:
                continue        # `nonlocal v` needs a binding of v in the enclosing function
            if _has_dead_tail(blk):
                continue        # a statement directly after return/raise/break/continue in the same block is dead code: no path, no claim
            if size == 5 and (not _kinds(blk, set()) <= LOOPFREE or _has_loop_else(blk)):
                continue
            if "'nasg'" in flat and not compiles(blk):
                continue
            out.append(blk)
    return out


def render(block, ind, ctr):
    out = []
    pad = "    " * ind
    for st in block:
        k = st[0]
        if k == "asg":
            ctr[0] += 1
            out.append("%sv = %d" % (pad, ctr[0]))
        elif k == "use":
            ctr[1] += 1
            out.append("%suse(v, %d)" % (pad, ctr[1]))
        elif k == "nuse":
            ctr[1] += 1
            out.append("%sdef inner_%d() -> None:" % (pad, ctr[1]))
            out.append("%s    use(v, %d)" % (pad, ctr[1]))
            out.append("%sinner_%d()" % (pad, ctr[1]))
        elif k == "nasg":
            ctr[0] += 1
            out.append("%sdef setter_%d() -> None:" % (pad, ctr[0]))
            out.append("%s    nonlocal v" % pad)
            out.append("%s    v = %d" % (pad, ctr[0]))
            out.append("%ssetter_%d()" % (pad, ctr[0]))
        elif k == "ret":
            out.append(pad + "return")
        elif k == "raise":
            out.append(pad + "raise ValueError")
        elif k == "brk":
            out.append(pad + "break")
        elif k == "cont":
            out.append(pad + "continue")
        elif k == "if":
            out.append(pad + "if c():")
            out += render(st[1], ind + 1, ctr)
            if st[2]:
                out.append(pad + "else:")
                out += render(st[2], ind + 1, ctr)
        elif k in ("try", "tryelse"):
            out.append(pad + "try:")
            out += render(st[1], ind + 1, ctr)
            out.append(pad + "except Exception:")
            out += render(st[2], ind + 1, ctr) if st[2] else [pad + "    pass"]
            if k == "tryelse":
                out.append(pad + "else:")
                out += render(st[3], ind + 1, ctr)
        elif k == "tryf":
            out.append(pad + "try:")
            out += render(st[1], ind + 1, ctr)
            out.append(pad + "finally:")
            out += render(st[2], ind + 1, ctr)
        elif k in ("withs", "withn"):
            out.append(pad + "with %s():" % ("CmS" if k == "withs" else "CmN"))
            out += render(st[1], ind + 1, ctr)
        elif k in ("while", "for"):
            out.append(pad + ("while c():" if k == "while" else "for _ in it():"))
            out += render(st[1], ind + 1, ctr)
            if st[2]:
                out.append(pad + "else:")
                out += render(st[2], ind + 1, ctr)
        elif k == "whileT":
            out.append(pad + "while True:")
            out += render(st[1], ind + 1, ctr)
    return out


def compiles(blk):
    try:
        compile(source(blk), "<c09>", "exec")
        return True
    except SyntaxError:
        return False


def source(blk):
    body = render(blk, 1, [0, 0])
    return "def run() -> None:\n" + "\n".join(body) + "\n    use(v, 99)\n"


# ---- strict oracle: exhaustive concrete execution ------------------------------------------------

class _Stop(Exception):
    pass


class _Boom(Exception):
    pass


def strict_obs(src, maxdec):
    obs = collections.defaultdict(set)
    s = "def _g(f, k):\n    try:\n        return f()\n    except NameError:\n        _unbound(k)\n        raise\n" + re.sub(r"use\(v, (\d+)\)", r"use(_g(lambda: v, \1), \1)", src).replace("while True:", "while _tick():")
    code = compile(s, "<strict>", "exec")
    nexec = [0]
    capped = [False]

    def run(script):
        pos = [0]
        steps = [0]

        def answer(n):
            steps[0] += 1
            if steps[0] > 60:
                raise _Stop()       # runaway `while True` without decisions
            if pos[0] < len(script):
                a = script[pos[0]]
            else:
                raise _Stop()
            pos[0] += 1
            return a % n if a < n else 0

        ticks = [0]

        def _tick():
            ticks[0] += 1
            if ticks[0] > 12:
                raise _Boom("runaway while True")      # an endless loop observes nothing new after a few rounds
            return True

        def c():
            a = answer(3)
            if a == 2:
                raise _Boom("c")
            return bool(a)

        def it():
            a = answer(3)
            return [0] * a

        def use(x, k):
            obs[k].add(x)
            a = answer(2)
            if a == 1:
                raise _Boom("u")

        class CmS:
            def __enter__(self):
                return None

            def __exit__(self, *a):
                return True

        class CmN:
            def __enter__(self):
                return None

            def __exit__(self, *a):
                return None
        ns = {"c": c, "it": it, "use": use, "CmS": CmS, "CmN": CmN, "_tick": _tick, "_unbound": lambda k: obs[k].add(UNB)}
        exec(code, ns)
        nexec[0] += 1
        try:
            ns["run"]()
        except _Stop:
            return True
        except BaseException:
            return False
        return False
    frontier = [()]
    while frontier:
        sc = frontier.pop()
        need_more = run(sc)
        if need_more:
            if len(sc) >= maxdec:
                capped[0] = True
                continue
            for a in (0, 1, 2):
                frontier.append(sc + (a,))
    return obs, nexec[0], capped[0]


# ---- liberal oracle: static may-reach analysis on our own CFG ------------------------------------

class _Flow:
    """May-analysis of the value of v.  A state is a frozenset of literals / UNB; None = unreachable."""

    def __init__(self):
        self.uses = collections.defaultdict(set)
        self.ctr = [0, 0]
        self.live_defs = set()
        self.nested_uses = set()

    @staticmethod
    def join(*ss):
        out = None
        for s in ss:
            if s is None:
                continue
            out = s if out is None else (out | s)
        return out

    def block(self, blk, S):
        """returns dict normal/brk/cont/ret/exc (each a state or None); exc includes every intermediate state (liberal)."""
        r = {"normal": S, "brk": None, "cont": None, "ret": None, "exc": None}
        for st in blk:
            if r["normal"] is None:
                # unreachable statements still consume counters
                self.skip(st)
                continue
            r["exc"] = self.join(r["exc"], r["normal"])
            o = self.stmt(st, r["normal"])
            for k in ("brk", "cont", "ret", "exc"):
                r[k] = self.join(r[k], o[k])
            r["normal"] = o["normal"]
            r["exc"] = self.join(r["exc"], r["normal"])
        return r

    def skip(self, st):
        k = st[0]
        if k in ("asg", "nasg"):
            self.ctr[0] += 1
        elif k in ("use", "nuse"):
            self.ctr[1] += 1
        else:
            for sub in st[1:]:
                if isinstance(sub, tuple):
                    for x in sub:
                        self.skip(x)

    def stmt(self, st, S):
        k = st[0]
        E = {"normal": None, "brk": None, "cont": None, "ret": None, "exc": None}
        if k == "asg":
            self.ctr[0] += 1
            self.live_defs.add(self.ctr[0])
            return dict(E, normal=frozenset([self.ctr[0]]))
        if k == "use":
            self.ctr[1] += 1
            self.uses[self.ctr[1]] |= S
            return dict(E, normal=S, exc=S)
        if k == "nuse":
            # a closure read: the nested function may observe any assignment of the enclosing function (filled in afterwards)
            self.ctr[1] += 1
            self.uses[self.ctr[1]] |= S
            self.nested_uses.add(self.ctr[1])
            return dict(E, normal=S, exc=S)
        if k == "nasg":
            # a nonlocal write in a nested function that is called right away; generous: the old values stay possible
            self.ctr[0] += 1
            self.live_defs.add(self.ctr[0])
            return dict(E, normal=S | frozenset([self.ctr[0]]), exc=S | frozenset([self.ctr[0]]))
        if k == "ret":
            return dict(E, ret=S)
        if k == "raise":
            return dict(E, exc=S)
        if k == "brk":
            return dict(E, brk=S)
        if k == "cont":
            return dict(E, cont=S)
        if k == "if":
            a = self.block(st[1], S)
            b = self.block(st[2], S)
            return {x: self.join(a[x], b[x]) if x != "exc" else self.join(a[x], b[x], S) for x in E}
        if k in ("try", "tryelse"):
            body = self.block(st[1], S)
            hin = self.join(body["exc"], S)
            h = self.block(st[2], hin)
            if k == "tryelse":
                e = self.block(st[3], body["normal"]) if body["normal"] is not None else self._dead(st[3])
            else:
                e = dict(E, normal=body["normal"])
            out = {}
            for x in E:
                if x == "normal":
                    out[x] = self.join(h["normal"], e["normal"])
                elif x == "exc":
                    out[x] = self.join(h["exc"], e["exc"])
                else:
                    out[x] = self.join(body[x], h[x], e[x])
            return out
        if k == "tryf":
            body = self.block(st[1], S)
            out = dict(E)
            # the finally block runs once per way of leaving the body; counters must advance only once
            c0 = list(self.ctr)
            first = True
            for reason in ("normal", "brk", "cont", "ret", "exc"):
                sin = body[reason] if reason != "exc" else self.join(body["exc"], S)
                if sin is None:
                    continue
                self.ctr = list(c0)
                f = self.block(st[2], sin)
                for x in ("brk", "cont", "ret", "exc"):
                    out[x] = self.join(out[x], f[x])
                out[reason] = self.join(out[reason], f["normal"])
            if all((body[r] if r != "exc" else self.join(body["exc"], S)) is None for r in ("normal", "brk", "cont", "ret", "exc")):
                self._dead(st[2])
            else:
                self.ctr = list(c0)
                self._dead(st[2])
            return out
        if k in ("withs", "withn"):
            body = self.block(st[1], S)
            out = dict(body)
            out["exc"] = self.join(body["exc"], S)
            if k == "withs":
                out["normal"] = self.join(body["normal"], body["exc"], S)
            return out
        if k in ("while", "for", "whileT"):
            head = S
            c0 = list(self.ctr)
            while True:
                self.ctr = list(c0)
                body = self.block(st[1], head)
                new = self.join(head, body["normal"], body["cont"])
                if new == head:
                    break
                head = new
            els = st[2] if k != "whileT" else ()
            e = self.block(els, head)
            return {"normal": self.join(e["normal"], body["brk"]), "brk": e["brk"], "cont": e["cont"], "ret": self.join(body["ret"], e["ret"]),
                    "exc": self.join(body["exc"], e["exc"], head)}
        raise AssertionError(k)

    def _dead(self, blk):
        for st in blk:
            self.skip(st)
        return {"normal": None, "brk": None, "cont": None, "ret": None, "exc": None}


def liberal_obs(blk):
    f = _Flow()
    r = f.block(blk, frozenset([UNB]))
    if r["normal"] is not None:
        f.uses[99] |= r["normal"]
    for k in f.nested_uses:
        f.uses[k] |= set(f.live_defs) | {UNB}
    f.uses["live_defs"] = f.live_defs
    return f.uses


# ---- driver -----------------------------------------------------------------------------------------

CHUNK = 60


def bounds(tier):
    return {"max_nodes": "4" if tier == "quick" else "4 (all constructs) + 5 (if/try/finally/return/raise only)", "max_nesting": 3, "skeletons": len(skeletons(tier)), "max_env_answers": 7 if tier == "quick" else 9}


def nest3_programs():
    """three levels of nesting (run > g > h) with the same name bound at several levels: which binding does `nonlocal` / a closure read refer to?"""
    out = []
    for f_binds in ("before", "after-call"):
        for g_mode in ("binds", "nonlocal-write", "reads-only"):
            for h_mode in ("nonlocal-write", "read", "nonlocal-read", "nonlocal-write-read"):
                lines = ["def run() -> None:"]
                if f_binds == "before":
                    lines.append("    v = 1")
                lines.append("    def g() -> None:")
                if g_mode == "binds":
                    lines.append("        v = 5")
                elif g_mode == "nonlocal-write":
                    lines += ["        nonlocal v", "        v = 5"]
                lines.append("        def h() -> None:")
                if h_mode.startswith("nonlocal"):
                    lines.append("            nonlocal v")
                if "write" in h_mode:
                    lines.append("            v = 2")
                if "read" in h_mode:
                    lines.append("            use(v, 3)")
                if h_mode == "nonlocal-write":
                    lines.append("            pass")
                lines.append("        h()")
                lines.append("        use(v, 4)")
                if f_binds == "after-call":
                    lines.append("    v = 1")
                lines.append("    g()")
                lines.append("    use(v, 99)")
                src = "\n".join(lines) + "\n"
                try:
                    compile(src, "<nest3>", "exec")
                except SyntaxError:
                    continue
                out.append(((f_binds, g_mode, h_mode), src))
    return out


def _nest3(res, tier, only=None):
    from pyanalyze.value import AnySource, AnyValue, KnownValue, flatten_values, UNINITIALIZED_VALUE
    from pa.run import Rec, check
    for pi, (label, src) in enumerate(nest3_programs()):
        if only is not None and list(label) != only:
            continue
        res.states += 1
        order = 10 ** 7 + pi
        # strict: run it (no environment needed); an unbound read raises like in CPython
        obs = collections.defaultdict(set)
        ns = {"use": lambda x, k: obs[k].add(x)}
        body = re.sub(r"use\(v, (\d+)\)", r"use(_g(lambda: v, \1), \1)", src)
        ns["_unbound"] = lambda k: obs[k].add(UNB)
        exec(compile("def _g(f, k):\n    try:\n        return f()\n    except NameError:\n        _unbound(k)\n        raise\n" + body, "<nest3>", "exec"), ns)
        try:
            ns["run"]()
        except Exception:
            pass
        res.transitions += 1
        fails, tree = check(PRE + src, visitor_cls=Rec, want_tree=True)
        res.transitions += 1
        und = collections.defaultdict(set)
        for f in fails:
            if f["code"].name in ("undefined_name", "possibly_undefined_name"):
                und[f.get("lineno")].add(1)
        rep = {}
        for n in ast.walk(tree):
            if isinstance(n, ast.Call) and isinstance(n.func, ast.Name) and n.func.id == "use" and len(n.args) == 2 and isinstance(n.args[1], ast.Constant):
                vals = getattr(n.args[0], "_inf", None)
                s = set()
                for val in vals or []:
                    for sv in flatten_values(val, unwrap_annotated=True):
                        if isinstance(sv, KnownValue):
                            s.add(sv.val)
                        elif sv is UNINITIALIZED_VALUE or (isinstance(sv, AnyValue) and sv.source is AnySource.error):
                            s.add(UNB)
                        elif isinstance(sv, AnyValue):
                            s.add("<any>")
                if und.get(n.args[0].lineno):
                    s.add(UNB)
                rep[n.args[1].value] = s if vals else None
        for kk, st_ in obs.items():
            res.validated += 1
            r = rep.get(kk)
            if r is None or "<any>" in r:
                res.outcomes["nest3:untracked"] += 1
                continue
            miss = st_ - r
            res.outcomes["nest3:%s" % ("ok" if not miss else "missing")] += 1
            if miss:
                res.violation({"kind": "nested-scopes-strict-not-reported", "missing": "unbound" if miss == {UNB} else "value", "f": label[0], "g": label[1], "h": label[2], "use": str(kk)},
                              {"nest3": list(label), "order": order},
                              "use %s: execution observes v in %s, reported %s:\n%s" % (kk, sorted(map(str, st_)), sorted(map(str, r)), src))
        if pi == 5:
            res.sample({"program": src, "observed": {str(a): sorted(map(str, b)) for a, b in obs.items()}})


def units(tier):
    n = len(skeletons(tier))
    return [(tier, i, min(n, i + CHUNK)) for i in range(0, n, CHUNK)] + [(tier, -1, -1)]


def _shape(blk):
    def sh(b):
        return "[" + ",".join(s[0] + "".join(sh(x) for x in s[1:] if isinstance(x, tuple)) for s in b) + "]"
    return sh(blk)


def _constructs(blk):
    out = set()

    def walk(b):
        for s in b:
            out.add(s[0])
            for x in s[1:]:
                if isinstance(x, tuple):
                    walk(x)
    walk(blk)
    return ",".join(sorted(out - {"asg", "use"}))


def _contexts(blk):
    """(use index -> context path, literal -> context path, set of jump kinds, loop-else contains an assignment)"""
    uses, defs, jumps = {}, {}, set()
    ctr = [0, 0]
    else_asg = [False]
    loop_else = {}

    def walk(b, path, le="-"):
        for st in b:
            k = st[0]
            if k in ("asg", "nasg"):
                ctr[0] += 1
                defs[ctr[0]] = path + (["nested-def"] if k == "nasg" else [])
                if any(p in ("while.else", "for.else") for p in path):
                    else_asg[0] = True
            elif k in ("use", "nuse"):
                ctr[1] += 1
                uses[ctr[1]] = path + (["nested-def"] if k == "nuse" else [])
                loop_else[ctr[1]] = le
            elif k in ("ret", "raise", "brk", "cont"):
                jumps.add(k)
            elif k == "if":
                walk(st[1], path + ["if.then"], le)
                walk(st[2], path + ["if.else"], le)
            elif k in ("try", "tryelse"):
                walk(st[1], path + ["try.body"], le)
                walk(st[2], path + ["try.handler"], le)
                if k == "tryelse":
                    walk(st[3], path + ["try.else"], le)
            elif k == "tryf":
                walk(st[1], path + ["tryf.body"], le)
                walk(st[2], path + ["tryf.finally"], le)
            elif k in ("withs", "withn"):
                walk(st[1], path + [k], le)
            elif k in ("while", "for"):
                walk(st[1], path + [k + ".body"], "1" if st[2] else "0")
                walk(st[2], path + [k + ".else"], le)
            elif k == "whileT":
                walk(st[1], path + ["whileT.body"], "0")
    walk(blk, [])
    uses[99] = []
    return uses, defs, jumps, else_asg[0], loop_else


def _ctx(path):
    return "/".join(path[-2:]) if path else "top"


def _reported(blks):
    """check the given skeletons as ONE module; returns per skeleton (rep dict, has_internal_error)"""
    from pyanalyze.value import AnySource, AnyValue, KnownValue, flatten_values, UNINITIALIZED_VALUE
    from pa.run import Rec, check
    srcs = [source(b).replace("def run()", "def run_%d()" % k) for k, b in enumerate(blks)]
    code = PRE + "".join(srcs)
    fails, tree = check(code, visitor_cls=Rec, want_tree=True)
    und = collections.defaultdict(set)
    internal = set()
    for f in fails:
        if f["code"].name in ("undefined_name", "possibly_undefined_name"):
            und[f.get("lineno")].add(f["code"].name)
        if f["code"].name == "internal_error":
            internal.add(f.get("lineno"))
    fns = {n.name: n for n in tree.body if isinstance(n, ast.FunctionDef) and n.name.startswith("run_")}
    out = []
    for k, blk in enumerate(blks):
        fn = fns["run_%d" % k]
        rep = {}
        for n in ast.walk(fn):
            if isinstance(n, ast.Call) and isinstance(n.func, ast.Name) and n.func.id == "use":
                kk = n.args[1].value
                vals = getattr(n.args[0], "_inf", None)
                if not vals:
                    rep[kk] = None
                    continue
                s = set()
                for val in vals:
                    for sv in flatten_values(val, unwrap_annotated=True):
                        if isinstance(sv, KnownValue):
                            s.add(sv.val)
                        elif sv is UNINITIALIZED_VALUE:
                            s.add(UNB)
                        elif isinstance(sv, AnyValue):
                            # resolve_name puts Any[error] where the unbound state was (and reports it); any other Any means the value is not tracked
                            if sv.source is AnySource.error:
                                s.add(UNB)
                            else:
                                s.add("<any>")
                if und.get(n.args[0].lineno):
                    s.add(UNB)
                rep[kk] = s
        out.append((rep, any(fn.lineno <= (l or 0) <= fn.end_lineno for l in internal)))
    return out


def _run(res, tier, blks, base, pair=None):
    maxdec = 7 if tier == "quick" else 9
    # (1) every skeleton is judged in a module of its own ...
    alone = [_reported([b])[0] for b in blks]
    res.transitions += len(blks)
    # (2) ... and all skeletons of the unit once more as one module: unrelated functions in the same file must not change a function's result
    if len(blks) > 1:
        together = _reported(blks)
        res.transitions += 1
        for k, blk in enumerate(blks):
            res.validated += 1
            same = together[k][0] == alone[k][0]
            res.outcomes["same-file-independence:%s" % ("holds" if same else "broken")] += 1
            if not same:
                # find one other function that is enough to cause it (replayable pair)
                culprit = None
                for j in range(len(blks)):
                    if j == k:
                        continue
                    two = [blks[j], blk] if j < k else [blk, blks[j]]
                    r2 = _reported(two)
                    res.transitions += 1
                    if r2[1 if j < k else 0][0] != alone[k][0]:
                        culprit = j
                        break
                if culprit is None:
                    res.violation({"kind": "same-file-interference", "culprit": "several-functions"}, {"skeleton": blk, "unit": [list(map(list, [()]))], "order": base + k},
                                  "checked together with the other %d functions of its unit this function is reported differently than alone, but no single other function causes it:\n%s" % (len(blks) - 1, source(blk)))
                else:
                    res.violation({"kind": "same-file-interference", "culprit": _constructs(blks[culprit]) or "plain", "order_in_file": "before" if culprit < k else "after"},
                                  {"pair": [blks[culprit], blk] if culprit < k else [blk, blks[culprit]], "victim": 1 if culprit < k else 0, "order": base + k},
                                  "a function is reported differently when this unrelated function stands in the same file:\n%s\nvictim:\n%s\nalone %s\ntogether %s"
                                  % (source(blks[culprit]), source(blk), {a: sorted(map(str, b)) for a, b in alone[k][0].items() if b is not None},
                                     {a: sorted(map(str, b)) for a, b in together[k][0].items() if b is not None}))
    if pair is not None:
        return
    for k, blk in enumerate(blks):
        res.states += 1
        order = base + k
        src = source(blk)
        case = {"skeleton": blk, "order": order}
        rep, has_internal = alone[k]
        if has_internal:
            res.violation({"kind": "internal_error", "constructs": _constructs(blk)}, case, "internal_error while checking\n" + src)
            continue
        strict, nexec, capped = strict_obs(src, maxdec)
        res.transitions += nexec
        res.extra["executions"] += nexec
        if capped:
            res.extra["skeletons_with_capped_env"] += 1
        lib = liberal_obs(blk)
        live_defs = lib.pop("live_defs")
        cons = _constructs(blk)
        uctx, dctx, jumps, else_asg, loop_else = _contexts(blk)
        captured = str(int("'nuse'" in repr(blk) or "'nasg'" in repr(blk)))
        jmp = ",".join(sorted(jumps)) or "-"
        for kk in sorted(set(strict) | set(lib) | set(rep)):
            st_ = strict.get(kk, set())
            lb = lib.get(kk, set())
            res.validated += 1
            if not st_ <= lb:
                res.violation({"kind": "ORACLE-DISAGREE", "constructs": cons}, case, "strict %s not within liberal %s at use %s of\n%s" % (st_, lb, kk, src))
                continue
            r = rep.get(kk)
            if kk not in lib:
                res.outcomes["use-on-no-path"] += 1
                continue        # no path of even the liberal CFG reaches this use: the property makes no claim about it
            if r is None:
                if st_:
                    res.outcomes["unvisited-but-executed"] += 1
                    res.violation({"kind": "use-unvisited", "constructs": cons, "missing": "unbound" if st_ == {UNB} else "value"}, case,
                                  "use %s executes with v in %s but the visitor never visited it in the checking phase:\n%s" % (kk, sorted(map(str, st_)), src))
                else:
                    res.outcomes["unvisited-and-unexecuted"] += 1
                continue
            if "<any>" in r:
                res.outcomes["reported-any"] += 1
                continue        # the value is not tracked (Any): it contains every definition and claims nothing
            miss = st_ - r
            extra = r - lb
            res.outcomes["ok" if not miss and not extra else ("missing" if miss else "extra")] += 1
            if miss:
                which = "unbound" if miss == {UNB} else ("value" if UNB not in miss else "both")
                lit = next((x for x in sorted(miss, key=str) if x != UNB), None)
                res.violation({"kind": "strict-not-reported", "missing": which, "use_ctx": _ctx(uctx.get(kk, [])), "def_ctx": _ctx(dctx[lit]) if lit in dctx else "-",
                               "jumps": jmp, "else_asg": str(int(else_asg)), "loop_else": loop_else.get(kk, "-"), "captured": captured}, case,
                              "use %s: execution observes v in %s, reported %s (missing %s):\n%s" % (kk, sorted(map(str, st_)), sorted(map(str, r)), sorted(map(str, miss)), src))
            if extra:
                which = "unbound" if extra == {UNB} else ("value" if UNB not in extra else "both")
                lit = next((x for x in sorted(extra, key=str) if x != UNB), None)
                res.violation({"kind": "reported-not-liberal", "extra": which, "def_dead": str(int(lit is not None and lit not in live_defs)), "use_ctx": _ctx(uctx.get(kk, [])),
                               "def_ctx": _ctx(dctx[lit]) if lit in dctx else "-", "jumps": jmp, "else_asg": str(int(else_asg)), "loop_else": loop_else.get(kk, "-"), "captured": captured}, case,
                              "use %s: reported %s but even the liberal analysis only allows %s (extra %s):\n%s" % (kk, sorted(map(str, r)), sorted(map(str, lb)), sorted(map(str, extra)), src))
        if order % 499 == 0:
            res.sample({"program": src, "strict": {str(a): sorted(map(str, b)) for a, b in strict.items()}, "liberal": {str(a): sorted(map(str, b)) for a, b in lib.items()},
                        "reported": {str(a): (sorted(map(str, b)) if b is not None else None) for a, b in rep.items()}})


def run_unit(unit):
    tier, lo, hi = unit
    res = UnitResult()
    if lo == -1:
        _nest3(res, tier)
        return res
    _run(res, tier, skeletons(tier)[lo:hi], lo)
    return res


def _tup(x):
    return tuple(_tup(y) if isinstance(y, list) else y for y in x)


def replay(case):
    res = UnitResult()
    if "nest3" in case:
        _nest3(res, "quick", only=case["nest3"])
        return list(res.viol.values())
    if "pair" in case:
        _run(res, "quick", [_tup(b) for b in case["pair"]], case.get("order", 0), pair=True)
        return [v for v in res.viol.values() if v["sig"]["kind"] == "same-file-interference"]
    _run(res, "quick", [_tup(case["skeleton"])], case.get("order", 0))
    return list(res.viol.values())


META = {
    "text": "Every statement skeleton up to 4 (quick) / 5 (thorough) nodes over the control constructs of the property is checked by the real visitor; for each use the reported "
            "definition set is compared with strict (all real executions under every environment answer sequence) and liberal (static may-reach with generous exception and loop "
            "edges): strict <= reported <= liberal, incl. the unbound state vs. undefined/possibly-undefined diagnostics. The two oracles are cross-validated on every skeleton.",
    "note": "Trusted: CPython execution (strict), the 150-line reference flow analysis (liberal). Nested functions/global/nonlocal not in the grammar.",
    "technique": "bounded exhaustive enumeration of control-flow skeletons x environment answers; oracles = concrete execution (lower bound) and reference reaching-definitions (upper bound)",
}
