"""C06 — call checking: arguments against parameter types, result type (kind E)."""
import inspect
import itertools
import re
import typing

from mc.core import UnitResult
from ref import universe as U

ID = "C06"
PARTS = ["starseq", "expected=True", "expected=False"]
RULE = ("state = (annotated function form, call with literal arguments): forms = plain/defaulted/*args/**kwargs/positional-only/keyword-only parameters, TypeVar-generic "
        "(plain, bounded, constrained, in containers, Callable), instance/class/static methods, __init__ and dataclass constructors; calls = every tuple of literals up to the "
        "arity bound, positionally and by keyword; oracle: the call is executed; for calls that bind, diagnosed <=> some argument is not a member of the declared type of the "
        "parameter it binds to (bounds/constraints for TypeVars), and the executed result must belong to the inferred type of the call")
ASSUMPTIONS = ["ref/member.py membership, ref/invalue.py; parameter binding via the real call + inspect.signature", "calls that do not bind are C05's subject and skipped",
               "for TypeVars inside containers / Callable only the result-soundness half is checked"]
MAXTASKS = 20

HELP = '''
T = TypeVar("T")
K_ = TypeVar("K_")
V_ = TypeVar("V_")
R_ = TypeVar("R_")
TB = TypeVar("TB", bound=int)
TC = TypeVar("TC", int, str)
def to_s(a: int) -> str: return str(a)
def ident_i(a: int) -> int: return a
'''
TYPES = ["int", "str", "float", "bool", "int | None", "list[int]", "tuple[str, ...]", "E", "object", "dict[str, int]", "Literal[1]", "bytes"]
LITS = ["1", "True", '"a"', "None", "1.5", "[1]", '("a",)', 'b"x"', "E.X", '{"k": 1}']


def forms():
    out = []
    # 1. plain, one and two parameters
    for t in TYPES:
        out.append("def f(a: %s) -> %s: return a" % (t, t))
    for t1, t2 in itertools.product(TYPES[:6], TYPES[:4]):
        out.append("def f(a: %s, b: %s) -> %s: return b" % (t1, t2, t2))
    # 2. defaults, incl. a default outside the declared type
    for t in TYPES[:5]:
        out.append("def f(a: %s, b: %s = None) -> object: return b" % (t, t))
        out.append("def f(a: %s = 1, b: str = 'x') -> str: return b" % t)
    # 3. star parameters, positional-only, keyword-only
    for t in TYPES[:4]:
        out.append("def f(*args: %s) -> tuple[%s, ...]: return args" % (t, t))
        out.append("def f(**kw: %s) -> dict[str, %s]: return kw" % (t, t))
        out.append("def f(a: int, /, **kw: %s) -> dict[str, %s]: return kw" % (t, t))
        out.append("def f(a: int, *args: %s, b: str = 'x') -> str: return b" % t)
        out.append("def f(*args: int, **kw: %s) -> int: return len(args)" % t)
        out.append("def f(a: %s, /, b: int = 0, *, c: str = 'c') -> str: return c" % t)
    # 4. generics
    out += [
        "def f(a: T) -> T: return a", "def f(a: T, b: T) -> T: return b", "def f(a: T, b: T) -> None: return None", "def f(a: T, b: int) -> tuple[T, int]: return (a, b)",
        "def f(a: list[T]) -> T: return a[0]", "def f(a: list[T], b: T) -> T: return b", "def f(a: dict[K_, V_]) -> tuple[K_, V_]: return list(a.items())[0]",
        "def f(a: TB) -> TB: return a", "def f(a: TB, b: TB) -> TB: return a", "def f(a: TB, b: TB) -> None: return None",
        "def f(a: TC) -> TC: return a", "def f(a: TC, b: TC) -> TC: return b", "def f(a: TC, b: TC) -> None: return None", "def f(a: TC, b: int) -> int: return b",
        "def f(a: Callable[[int], R_], b: int) -> R_: return a(b)", "def f(a: T, b: Callable[[T], R_]) -> R_: return b(a)",
        "def f(a: tuple[T, V_]) -> tuple[V_, T]: return (a[1], a[0])", "def f(a: T | None) -> T | int: return a if a is not None else 0",
        "def f(a: Sequence[T]) -> list[T]: return list(a)", "def f(*args: T) -> tuple[T, ...]: return args", "def f(**kw: T) -> dict[str, T]: return kw",
        "def f(a: type[T]) -> T: return a()",
    ]
    return out


METHOD_FORMS = [
    # (class source, call prefix, parameter source of the callable as seen by the caller)
    ("class K:\n    def m(self, a: int, b: str = 'x') -> str: return b\n", "K().m", "def f(a: int, b: str = 'x') -> str: ..."),
    ("class K:\n    @classmethod\n    def m(cls, a: int, b: str = 'x') -> str: return b\n", "K.m", "def f(a: int, b: str = 'x') -> str: ..."),
    ("class K:\n    @classmethod\n    def m(cls, a: int, b: str = 'x') -> str: return b\n", "K().m", "def f(a: int, b: str = 'x') -> str: ..."),
    ("class K:\n    @staticmethod\n    def m(a: int, b: str = 'x') -> str: return b\n", "K.m", "def f(a: int, b: str = 'x') -> str: ..."),
    ("class K:\n    def __init__(self, a: int, b: str = 'x') -> None:\n        self.a = a\n", "K", "def f(a: int, b: str = 'x') -> object: ..."),
    ("@dataclasses.dataclass\nclass K:\n    a: int\n    b: str = 'x'\n", "K", "def f(a: int, b: str = 'x') -> object: ..."),
    ("class K:\n    def m(self, a: TC, b: TC) -> None: return None\n", "K().m", "def f(a: TC, b: TC) -> None: ..."),
    ("class K:\n    def m(self, a: T, *rest: T) -> T: return a\n", "K().m", "def f(a: T, *rest: T) -> T: ..."),
    ("class K:\n    def __call__(self, a: float) -> float: return a\n", "K()", "def f(a: float) -> float: ..."),
    ("class K(Generic[T]):\n    def __init__(self, a: T) -> None:\n        self.a = a\n    def get(self) -> T: return self.a\n", "K", "def f(a: T) -> object: ..."),
]


def all_forms():
    out = [("", "f", src, src) for src in forms()]
    for cls, prefix, sig in METHOD_FORMS:
        out.append((cls, prefix, None, sig))
    return out


def calls_for(sig_src, ns, arity):
    """Argument lists (pos sources, kw sources) for one callable."""
    tmp = dict(ns)
    exec(sig_src.replace(": return", ": pass  #").split("#")[0] if False else sig_src, tmp)
    sig = inspect.signature(tmp["f"])
    params = list(sig.parameters.values())
    names = [p.name for p in params if p.kind in (p.POSITIONAL_OR_KEYWORD, p.KEYWORD_ONLY)]
    posonly = [p.name for p in params if p.kind == p.POSITIONAL_ONLY]
    has_varkw = any(p.kind == p.VAR_KEYWORD for p in params)
    out = []
    for k in range(0, arity + 1):
        for tup in itertools.product(LITS, repeat=k):
            out.append((list(tup), {}))
    # keyword forms: first positional, rest by keyword; and all by keyword
    for k in range(1, arity + 1):
        for tup in itertools.product(LITS[:6], repeat=k):
            if len(names) >= k:
                out.append(([], dict(zip(names[:k], tup))))
            if k >= 2 and len(names) >= 1:
                rest = [n for n in names if n not in [p.name for p in params][:1]]
                if len(rest) >= k - 1 and [p.name for p in params][:1]:
                    out.append(([tup[0]], dict(zip(rest[:k - 1], tup[1:]))))
    if has_varkw:
        for v in LITS[:6]:
            out.append((["1"] if posonly or names else [], {"z": v}))
            for pn in posonly:
                out.append((["1"], {pn: v}))       # a keyword that reuses the name of a positional-only parameter goes to **kw
            out.append((["1"] if posonly or names else [], {"args": v}))
    return out


def _all_units(tier):
    fs = all_forms()
    return [(tier, i) for i in range(len(fs))] + [(tier, "starseq")]


def bounds(tier):
    return {"forms": len(all_forms()), "literals": len(LITS), "max_arity": 2 if tier == "quick" else 3}


def units(tier):
    return _all_units(tier)


def _render_call(prefix, pos, kw):
    return "%s(%s)" % (prefix, ", ".join(list(pos) + ["%s=%s" % (k, v) for k, v in kw.items()]))


def _expected(fobj, hints, pos_vals, kw_vals):
    """None if the oracle has no opinion, else True (must be diagnosed) / False (must not)."""
    from ref.member import Unsupported, member
    sig = inspect.signature(fobj)
    try:
        ba = sig.bind(*pos_vals, **kw_vals)
    except TypeError:
        return "nobind", None
    tv_args = {}
    must = False
    opinion = True
    for name, val in ba.arguments.items():
        p = sig.parameters[name]
        h = hints.get(name, typing.Any)
        items = [val]
        if p.kind == p.VAR_POSITIONAL:
            items = list(val)
        elif p.kind == p.VAR_KEYWORD:
            items = list(val.values())
        for it in items:
            if isinstance(h, typing.TypeVar):
                tv_args.setdefault(h, []).append(it)
                continue
            if h is typing.Any:
                continue
            if _has_typevar(h):
                opinion = False      # TypeVar inside a container / Callable: only result soundness is judged
                continue
            try:
                if not member(it, h):
                    must = True
            except Unsupported:
                opinion = False
    for tv, vals in tv_args.items():
        try:
            if tv.__bound__ is not None:
                if any(not member(v, tv.__bound__) for v in vals):
                    must = True
            elif tv.__constraints__:
                if not any(all(member(v, c) for v in vals) for c in tv.__constraints__):
                    must = True
        except Unsupported:
            opinion = False
    if must:
        return "bind", True
    return "bind", (False if opinion else None)


def _has_typevar(h):
    if isinstance(h, typing.TypeVar):
        return True
    for a in typing.get_args(h):
        if isinstance(a, (list, tuple)):
            if any(_has_typevar(x) for x in a):
                return True
        elif _has_typevar(a):
            return True
    return False


def _form_kind(sig_src, cls_src, prefix):
    import re
    s = sig_src
    kinds = []
    if cls_src:
        kinds.append("method:" + ("init" if prefix == "K" and "__init__" in cls_src else "dataclass" if "dataclass" in cls_src else
                                  "classmethod" if "classmethod" in cls_src else "staticmethod" if "staticmethod" in cls_src else "call" if "__call__" in cls_src else "instance"))
    for tv in ("TB", "TC"):
        if re.search(r"\b%s\b" % tv, s):
            kinds.append(tv)
    if re.search(r": T\b|\bT\]|\[T\b|K_|V_|R_", s):
        kinds.append("T")
    if "*args" in s or "*rest" in s:
        kinds.append("varargs")
    if "**kw" in s:
        kinds.append("varkw")
    if "/" in s:
        kinds.append("posonly")
    if "= None" in s or "= 1" in s or "= 'x'" in s or "= 0" in s or "= 'c'" in s:
        kinds.append("defaults")
    return "+".join(kinds) or "plain"


def _run_form(res, tier, fi, only_call=None):
    from pa.run import Rec, check, cleanup_module
    from ref.invalue import Unknown, in_value
    cls_src, prefix, def_src, sig_src = all_forms()[fi]
    arity = 2 if tier == "quick" else 3
    pre = U.PRELUDE + HELP
    ns0 = {"__name__": "c06sig"}
    exec(pre, ns0)
    calls = calls_for(sig_src, ns0, arity)
    if only_call is not None:
        calls = [(only_call[0], only_call[1])]
    body = (cls_src or "") + ((def_src + "\n") if def_src else "")
    CH = 600
    for c0 in range(0, len(calls), CH):
        chunk = calls[c0:c0 + CH]
        src = pre + body + "def caller():\n" + "".join("    %s\n" % _render_call(prefix, p, k) for p, k in chunk)
        first = src.count("\n") - len(chunk) + 1
        fails, tree, mod = check(src, visitor_cls=Rec, want_module=True)
        res.transitions += 1
        try:
            ns = vars(mod)
            by_line = {}
            for f in fails:
                by_line.setdefault(f.get("lineno"), []).append((f["code"].name, f.get("description", "")))
            stmts = {st.lineno: st for st in tree.body[-1].body}
            # the callable as the caller sees it
            tmp = dict(ns)
            exec(sig_src, tmp)
            fsig = tmp["f"]
            hints = typing.get_type_hints(fsig, globalns=tmp, include_extras=False)
            target = eval(prefix, ns)
            for j, (pos, kw) in enumerate(chunk):
                ln = first + j
                res.states += 1
                order = fi * 100000 + c0 + j
                call_src = _render_call(prefix, pos, kw)
                pos_vals = [eval(p, ns) for p in pos]
                kw_vals = {k: eval(v, ns) for k, v in kw.items()}
                status, exp = _expected(fsig, hints, pos_vals, kw_vals)
                if status == "nobind":
                    res.outcomes["does-not-bind"] += 1
                    continue
                ds = by_line.get(ln, [])
                codes = {c for c, _ in ds}
                diagnosed = bool(codes & {"incompatible_argument", "incompatible_call"})
                other = codes - {"incompatible_argument", "incompatible_call", "unsafe_comparison", "missing_generic_parameters"}
                res.validated += 1
                res.outcomes["expected=%s/diagnosed=%s" % (exp, diagnosed)] += 1
                case = {"form": fi, "pos": pos, "kw": kw, "order": order}
                fk = _form_kind(sig_src, cls_src, prefix)
                argt = ",".join([type(v).__name__ for v in pos_vals] + ["%s=%s" % (k, type(v).__name__) for k, v in kw_vals.items()])
                if other:
                    res.violation({"kind": "unexpected-code", "codes": ",".join(sorted(other)), "form": fk}, case,
                                  "%s with %s gives %s" % (call_src, sig_src, ds))
                if exp is True and not diagnosed:
                    res.violation({"kind": "missed", "form": fk, "sig": sig_src.split(":", 1)[0] if False else _abstract(sig_src), "args": argt}, case,
                                  "%s: some argument is outside the declared parameter type (%s) but the call is not diagnosed" % (call_src, sig_src))
                elif exp is False and diagnosed:
                    res.violation({"kind": "false-alarm", "form": fk, "sig": _abstract(sig_src), "args": argt, "msg": _norm(ds[0][1])}, case,
                                  "%s: every argument belongs to its parameter type (%s) but pyanalyze reports: %s" % (call_src, sig_src, ds[0][1].split("\n")[0]))
                # result soundness
                if not diagnosed and exp is not True:
                    try:
                        result = target(*pos_vals, **kw_vals)
                    except Exception:
                        continue
                    res.transitions += 1
                    st = stmts.get(ln)
                    vals = getattr(st.value, "_inf", None) if st is not None else None
                    if vals:
                        res.validated += 1
                        try:
                            ok = any(in_value(result, v) for v in vals)
                        except Unknown:
                            ok = True
                        if not ok:
                            res.violation({"kind": "result-unsound", "form": fk, "sig": _abstract(sig_src), "args": argt, "rtype": type(result).__name__}, case,
                                          "%s returns %r (%s) but the call is inferred as %s (%s)" % (call_src, result, type(result).__name__, vals[-1], sig_src))
                if j == 7 and fi % 9 == 0:
                    res.sample({"def": sig_src, "call": call_src, "diagnosed": diagnosed, "oracle": exp})
        finally:
            cleanup_module(mod)


def _abstract(sig_src):
    return sig_src.split(")")[0].replace("def f(", "(") + ")"


def _norm(msg):
    import re
    from pa.run import norm_text
    m = norm_text(msg.split("\n")[0])
    m = re.sub(r"Literal\[[^\]]*\]", "Literal[_]", m)
    return m[:70]


# ---- star arguments of unknown length (typed sequences) into *args: every sequence of 1-3 star arguments, optionally with a literal between them ----------
SS_FORMS = ["def f(*args: int) -> int: return len(args)", "def f(a: int, *args: int) -> int: return a", "def f(*args: T) -> T: return args[0]", "def f(a: object, *args: str) -> object: return a",
            # named parameters only: fed from a star argument and / or a double-star argument of unknown keys
            "def f(a: int, b: int = 0) -> int: return a", "def f(a: T, b: T) -> T: return a", "def f(a: T, b: T = None, **kw: T) -> T: return a"]
SS_DICTS = [("sd", "dict[str, str]", "str"), ("di", "dict[str, int]", "int")]
SS_VARS = [("ii", "list[int]", "int"), ("ss", "Sequence[str]", "str"), ("ti", "tuple[int, ...]", "int"), ("ts", "tuple[str, ...]", "str"), ("bb", "list[bool]", "bool")]
_SS_OK = {("int", "int"), ("bool", "int"), ("str", "str"), ("int", "object"), ("str", "object"), ("bool", "object")}


def _starseq(res, only=None):
    from pa.run import check
    names = [v[0] for v in SS_VARS]
    elem = {v[0]: v[2] for v in SS_VARS + SS_DICTS}
    seqs = []
    for n in (1, 2, 3):
        for combo in itertools.product(names, repeat=n):
            seqs.append(["*" + x for x in combo])
            if n == 2:
                seqs.append(["*" + combo[0], "1", "*" + combo[1]])
                seqs.append(["*" + combo[0], "'s'", "*" + combo[1]])
    dseqs = []
    for d in [x[0] for x in SS_DICTS]:
        dseqs.append(["**" + d])
        for x in names[:4]:
            dseqs.append(["*" + x, "**" + d])
            dseqs.append(["1", "**" + d])
    all_seqs = seqs
    for fi, fsrc in enumerate(SS_FORMS):
        named = "*args" not in fsrc
        seqs = dseqs if named else all_seqs
        lines = ["    reveal_type(f(%s))" % ", ".join(a) for a in seqs]
        hdr = U.PRELUDE + HELP + fsrc + "\ndef caller(" + ", ".join("%s: %s" % (v[0], v[1]) for v in SS_VARS + SS_DICTS) + ") -> None:\n"
        src = hdr + "\n".join(lines) + "\n"
        first = src.count("\n") - len(lines) + 1
        fails = check(src)
        res.transitions += 1
        by = {}
        for fl in fails:
            by.setdefault(fl.get("lineno"), []).append((fl["code"].name, fl.get("description", "")))
        if named:
            first_t, star_t = None, re.match(r"def f\(a: (\w+)", fsrc).group(1)     # every parameter has this type; any element may reach any of them
        else:
            m = re.match(r"def f\((?:a: (\w+), )?\*args: (\w+)\)", fsrc)
            first_t, star_t = m.group(1), m.group(2)
        for ai, args in enumerate(seqs):
            if only is not None and [fi, args] != only:
                continue
            res.states += 1
            res.validated += 1
            ds = by.get(first + ai, [])
            diagnosed = any(c in ("incompatible_argument", "incompatible_call") for c, _ in ds)
            rev = next((d for c, d in ds if c == "reveal_type"), "")
            # element types that may reach each parameter: the first parameter (if any) may take the first element of the leading star argument(s) or a literal
            ets = [elem[a.lstrip("*")] if a.startswith("*") else ("int" if a == "1" else "str") for a in args]
            case = {"mode": "starseq", "fi": fi, "args": args, "order": 10 ** 7 + fi * 1000 + ai}
            desc = "%s; call f(%s) with %s" % (fsrc, ", ".join(args), ", ".join("%s: %s" % (v[0], v[1]) for v in SS_VARS))
            if star_t == "T":
                ok_types = True
            else:
                # an element type that is acceptable neither for the first parameter nor for *args must be diagnosed; one that fits *args everywhere never is
                bad_everywhere = any((t, star_t) not in _SS_OK and (first_t is None or (t, first_t) not in _SS_OK) for t in ets)
                fits_everywhere = all((t, star_t) in _SS_OK and (first_t is None or (t, first_t) in _SS_OK) for t in ets)
                ok_types = None if not (bad_everywhere or fits_everywhere) else fits_everywhere
            res.outcomes["starseq:%s/%s" % ({True: "fits", False: "ill-typed", None: "position-dependent"}[ok_types], "diagnosed" if diagnosed else "accepted")] += 1
            if ok_types is False and not diagnosed:
                res.violation({"kind": "missed", "family": "starseq", "form": _abstract(fsrc), "nstars": str(sum(a.startswith("*") for a in args))}, case, "%s: an element type fits no parameter but the call is not diagnosed" % desc)
            elif ok_types is True and diagnosed and star_t != "T":
                res.violation({"kind": "false-alarm", "family": "starseq", "form": _abstract(fsrc), "nstars": str(sum(a.startswith("*") for a in args))}, case, "%s: every element type fits but the call is diagnosed (%s)" % (desc, ds[0][1][:100]))
            elif star_t == "T" and not diagnosed and "Any[" not in rev:
                missing = [t for t in set(ets) if not re.search(r"\b%s\b" % t, rev) and not (t == "bool" and re.search(r"\bint\b", rev)) and not (t == "int" and "Literal[1]" in rev) and not (t == "str" and "Literal['s']" in rev)]
                if missing:
                    res.violation({"kind": "result-unsound", "family": "starseq", "form": _abstract(fsrc), "nstars": str(sum(a.startswith("*") for a in args))}, case,
                                  "%s: the result may be a %s at run time but is typed %s" % (desc, "/".join(sorted(missing)), rev))
    res.sample({"starseq_forms": SS_FORMS, "argument_sequences": len(seqs)})


def run_unit(unit):
    tier, fi = unit
    res = UnitResult()
    if fi == "starseq":
        _starseq(res)
        return res
    _run_form(res, tier, fi)
    return res


def replay(case):
    res = UnitResult()
    if case.get("mode") == "starseq":
        _starseq(res, only=[case["fi"], case["args"]])
        return list(res.viol.values())
    _run_form(res, "quick", case["form"], only_call=(case["pos"], case["kw"]))
    return list(res.viol.values())


META = {
    "text": "Every (function form, literal argument list) pair of the bounded space (about 100 forms x all literal tuples up to arity 2/3, positionally and by keyword, plus "
            "keywords routed into **kwargs) is checked by the real visitor and executed: for binding calls, diagnosed <=> an argument is outside its parameter's declared type "
            "(bound/constraints for TypeVars), and the executed result belongs to the inferred call type.",
    "note": "Trusted: ref/member.py, ref/invalue.py, inspect.signature binding of successfully executed calls. TypeVars inside containers: only result soundness.",
    "technique": "bounded exhaustive enumeration of (signature form, argument tuple) against the real call checker, oracle = membership model + executing the call",
}
