"""C17 — format-string diagnostics agree with CPython's formatter (kind E, oracle = CPython)."""
import itertools
import re

from mc.core import UnitResult

ID = "C17"
PARTS = ['fmt', 'pct']      # outcome classes every run must produce (guards against a part of the exploration silently not running)
RULE = ("state = (template, argument): %-templates built from the complete conversion grammar (mapping key, flags, width, precision, length, conversion "
        "character incl. invalid ones) for str and bytes x literal scalars/tuples/dicts; str.format templates (auto/numbered/named fields, attribute and index "
        "paths, conversions, nested specs, escapes, stray braces) x positional/keyword argument lists; oracle: CPython formats or raises")
ASSUMPTIONS = ["CPython 3.12 formatter is the specification", "documented stricter lint rules (DESIGN.md 6.2) may fire on successful formatting"]
MAXTASKS = 60

KEYS = ["", "(a)", "(b)"]
FLAGS = {"quick": ["", "#", "0", "-", " ", "+", "-0", "#0"],
         "thorough": [""] + ["".join(p) for n in (1, 2) for p in itertools.product("#0- +", repeat=n)]}
WIDTHS = ["", "3", "*"]
PRECS = ["", ".2", ".*", "."]
LENS = ["", "l"]
CONVS = list("diouxXeEfFgGcrsab%") + ["y", "D"]

ARGS = ['1', 'True', '1.5', '"a"', '"ab"', 'b"a"', 'None', '300', '-1', '(1,)', '("a",)', '(1, 2)', '(3, 1)', '(3, 1.5)', '(3, 2, 1.5)', '(3, 2, "a")', '()',
        '{"a": 1}', '{"a": "x", "b": 2}', '{"b": 1.5}', '{}', '[1]', '(b"a",)', '(1.5,)',
        # bytes-like but not bytes; mapping keys that are not plain identifiers / not strings
        'bytearray(b"a")', '{42: "x"}', '{"": 1, "a(b)": 2}']

LINT_OK = [
    "use of % on string with no conversion specifiers",
    "using % combined with optional specifiers does not make sense",
    "cannot combine specifiers that require a mapping with those that do not",
    "the %b conversion specifier works only on Python 3 bytes patterns",
    "were not used",
]
IGNORED_CODES = {"use_fstrings", "missing_f"}


def specs(tier):
    out = []
    for k, f, w, p, l, c in itertools.product(KEYS, FLAGS[tier], WIDTHS, PRECS, LENS, CONVS):
        out.append("%" + k + f + w + p + l + c)
    return out


def pct_cases(tier):
    """(template source, argument source)"""
    out = []
    ss = specs(tier)
    for is_bytes in (False, True):
        for s in ss:
            t = "x" + s + "y"
            tsrc = ("b" if is_bytes else "") + repr(t)
            for a in ARGS:
                out.append((tsrc, a))
    # two-specifier templates over a reduced specifier set
    small = ["%d", "%s", "%(a)s", "%(b)d", "%%", "%*d", "%.*f", "%c", "%x", "%r", "%5.2f", "%y", "%b", "%*.*f"]
    if tier == "thorough":
        small += ["%(a)d", "%-3s", "%#x", "%e", "%a", "%i", "% d", "%03d", "%(c)s", "%.2s", "%lu"]
    for is_bytes in (False, True):
        for s1, s2 in itertools.product(small, repeat=2):
            t = s1 + " " + s2
            tsrc = ("b" if is_bytes else "") + repr(t)
            for a in ARGS:
                out.append((tsrc, a))
    # templates with no specifier / incomplete specifier
    for t in ['""', '"x"', '"%"', '"x%"', '"%("', '"%(a"', '"%(a)"', '"%.f"', '"%l"', 'b"%"', 'b"x"', '"x\\n%d"', '"%d\\n"', '"%()s"', '"%(a(b))s"', '"%(a(b)s"', 'b"%(a)s"', '"%(a)s%(a)s"']:
        for a in ARGS:
            out.append((t, a))
    return out


# ---- str.format -----------------------------------------------------------

FIELDS_NAME = ["", "0", "1", "a", "2", "self"]      # "self": the name of the first parameter of str.format itself
FIELDS_PATH = ["", ".real", ".nope", "[0]", "[k]", ".real.imag", "[0][0]"]
FIELDS_CONV = ["", "!r", "!s", "!a", "!x"]
FIELDS_SPEC = ["", ":>4", ":{}", ":{0}", ":d", ":{a}", ":>{1}", ":.2f"]
FMT_ARGS = ['', '1', '"x"', '1, 2', '"x", 3', 'a=1', '1, a=2', 'a="x"', '(1, 2)', '{"k": 1}', '1, 2, 3', 'a=1, b=2', '[5]', '1.5', 'self=1', '1, self=2', '**{"self": 1}', '**{"a": 1}']


def fmt_cases(tier):
    out = []
    fields = []
    for n, p, c, s in itertools.product(FIELDS_NAME, FIELDS_PATH, FIELDS_CONV, FIELDS_SPEC):
        fields.append("{" + n + p + c + s + "}")
    for f in fields:
        for a in FMT_ARGS:
            out.append((repr("x" + f + "y"), a))
    two = ["{}", "{0}", "{1}", "{a}", "{0.real}", "{!r}", "{:>4}", "{{", "}}", "{", "}", "{0[0]}", "{:{}}", "{b}",
           # field names that look like numbers to int() but are names (or not) to CPython's parser
           "{+0}", "{ 0}", "{-1}", "{1_0}", "{00}", "{0:{+1}}", "{\u00b2}", "{\u0661}",
           # nesting depth, braces inside a format spec, text after an index, a non-ASCII attribute name
           "{:{:{}}}", "{:{{}", "{a[0]x}", "{0[0]x}", "{0.\u00e9}"]
    if tier == "thorough":
        two += ["{2}", "{a.real}", "{a[0]}", "{0!s:>3}", "{:d}", "{!x}", "{0:{1}}", "{:{a}}", "{0.}", "{[}", "{0 }", "{a!r:}"]
    for f1, f2 in itertools.product(two, repeat=2):
        for a in FMT_ARGS:
            out.append((repr(f1 + " " + f2), a))
    if tier == "thorough":
        for f1, f2, f3 in itertools.product(two[:12], repeat=3):
            for a in FMT_ARGS[:8]:
                out.append((repr(f1 + f2 + f3), a))
    return out


def all_cases(tier):
    return [("pct", t, a) for t, a in pct_cases(tier)] + [("fmt", t, a) for t, a in fmt_cases(tier)]


CHUNK = 1500


def bounds(tier):
    return {"percent_specifiers": len(specs(tier)), "percent_cases": len(pct_cases(tier)), "format_cases": len(fmt_cases(tier)), "args": len(ARGS)}


def units(tier):
    n = len(all_cases(tier))
    return [(tier, i, min(n, i + CHUNK)) for i in range(0, n, CHUNK)]


def _expr(kind, t, a):
    if kind == "pct":
        return "%s %% %s" % (t, a)
    return "%s.format(%s)" % (t, a)


def _norm(msg):
    msg = re.sub(r"invalid conversion specifier in .*", "invalid conversion specifier", msg, flags=re.S)
    msg = re.sub(r"Literal\[[^\]]*\]", "Literal[_]", msg)
    msg = re.sub(r"'[^']*'", "'_'", msg)
    msg = re.sub(r"\d+", "N", msg)
    return msg[:70]


_SPEC_RE = re.compile(r"%(\([^)]*\))?([#0\- +]*)(\*|\d+)?(\.(\*|\d*))?([hlL])?(.)", re.S)


def _features(kind, t, a):
    """Root-cause oriented features of a case (deliberately coarser than the case itself)."""
    tt = eval(t)
    is_bytes = isinstance(tt, bytes)
    s = tt.decode("latin1") if is_bytes else tt
    feats = {"tpl": "bytes" if is_bytes else "str"}
    if kind == "pct":
        ms = list(_SPEC_RE.finditer(s))
        feats["conv"] = ",".join(m.group(7) for m in ms)
        feats["key"] = "".join(sorted({"k" if m.group(1) else "-" for m in ms}))
        feats["width"] = "".join(sorted({("*" if m.group(3) == "*" else ("n" if m.group(3) else "-")) for m in ms}))
        feats["prec"] = "".join(sorted({("*" if m.group(5) == "*" else ("." if m.group(4) == "." else ("n" if m.group(4) else "-"))) for m in ms}))
        try:
            av = eval(a)
        except Exception:
            av = None
        feats["arg"] = type(av).__name__
        if isinstance(av, dict) and any(not isinstance(k, str) for k in av):
            feats["arg"] = "dict-nonstr-key"
    else:
        feats["path"] = ("attr" if re.search(r"\{[^{}:!]*\.", s) else "") + ("index" if re.search(r"\{[^{}:!]*\[", s) else "")
        feats["nested"] = "nested" if re.search(r":[^{}]*\{", s) else "flat"
    return feats


def _judge(res, kind, t, a, diags, inferred, order):
    from pyanalyze.value import TypedValue, KnownValue
    expr = _expr(kind, t, a)
    try:
        val = eval(expr, {})
        st = "ok"
    except (TypeError, ValueError, KeyError, IndexError, AttributeError, OverflowError) as e:
        val = e
        st = "exc"
    diags = [(c, d) for c, d in diags if c not in IGNORED_CODES]
    real = [(c, d) for c, d in diags if not any(l in d for l in LINT_OK)]
    lint = [(c, d) for c, d in diags if any(l in d for l in LINT_OK)]
    diagnosed = bool(diags)
    res.validated += 1
    res.outcomes["%s:%s/%s" % (kind, "raises" if st == "exc" else "formats",
                               "diagnosed" if real else ("lint-only" if lint else "accepted"))] += 1
    case = {"kind": kind, "template": t, "args": a, "order": order}
    bad = None
    if any(c == "internal_error" for c, d in diags):
        # a diagnostic, but not a verdict: the checker crashed on the template
        ie = next(d for c, d in diags if c == "internal_error")
        res.violation({"kind": "internal-error", "op": kind, "exc": ie.strip().split("\n")[-1].split("(")[0][:60]}, case,
                      "%s: pyanalyze reports an internal error (%s); CPython %s" % (expr, ie.strip().split(chr(10))[-1][:120], ("raises %s" % type(val).__name__) if st == "exc" else "formats it"))
        return
    if st == "exc" and not diagnosed:
        bad = "missed"
    elif st == "ok" and real:
        bad = "false-alarm"
    if bad:
        sig = {"kind": bad, "op": kind,
               "cpython": (type(val).__name__ + ": " + _norm(str(val))) if st == "exc" else "formats",
               "pyanalyze": _norm(real[0][1]) if real else "accepted"}
        sig.update(_features(kind, t, a))
        res.violation(sig, case, "%s: CPython %s; pyanalyze %s" % (
            expr, ("raises %s: %s" % (type(val).__name__, val)) if st == "exc" else "gives %r" % (val,),
            ("reports " + "; ".join("%s: %s" % (c, d.split(chr(10))[0]) for c, d in diags)) if diags else "accepts"))
    if st == "ok" and inferred:
        for v in inferred:
            res.validated += 1
            ok = True
            if isinstance(v, KnownValue):
                ok = type(v.val) is type(val) and v.val == val
            elif isinstance(v, TypedValue) and isinstance(v.typ, type):
                ok = isinstance(val, v.typ)
            if not ok:
                res.violation({"kind": "wrong-result-type", "op": kind, "tpl": type(eval(t)).__name__, "inferred": str(v)[:40]}, case,
                              "%s: inferred %s but evaluates to %r" % (expr, v, val))


def _run(res, cs, base):
    from pa.run import Rec, check
    src = "def run():\n" + "".join("    %s\n" % _expr(k, t, a) for k, t, a in cs)
    import warnings
    with warnings.catch_warnings():
        warnings.simplefilter("ignore")
        fails, tree = check(src, visitor_cls=Rec, want_tree=True)
    res.transitions += 1
    by_line = {}
    for f in fails:
        by_line.setdefault(f.get("lineno"), []).append((f["code"].name, f.get("description", "")))
    inf = {stmt.lineno: getattr(stmt.value, "_inf", []) for stmt in tree.body[0].body}
    # a template containing \n spans one physical line only because repr() escapes it
    for j, (k, t, a) in enumerate(cs):
        res.states += 1
        _judge(res, k, t, a, by_line.get(2 + j, []), inf.get(2 + j, []), base + j)
        if (base + j) % 4999 == 0:
            res.sample({"expr": _expr(k, t, a), "diagnostics": [d for c, d in by_line.get(2 + j, [])][:1]})


def run_unit(unit):
    tier, lo, hi = unit
    res = UnitResult()
    _run(res, all_cases(tier)[lo:hi], lo)
    return res


def replay(case):
    res = UnitResult()
    _run(res, [(case["kind"], case["template"], case["args"])], case.get("order", 0))
    return list(res.viol.values())


META = {
    "text": "Every (template, argument) pair of the bounded grammar is checked by the real pyanalyze and formatted by CPython: the complete single-specifier "
            "grammar (key x flags x width x precision x length x conversion, str and bytes) x 24 literal arguments, two-specifier templates, and str.format fields "
            "(name x path x conversion x spec) x 14 argument lists. CPython raises => diagnosed; formats => no diagnostic other than the documented lints; result type agrees.",
    "note": "Trusted: CPython 3.12 formatting; the lint rules listed in DESIGN.md 6.2 are allowed on successfully formatting cases.",
    "technique": "bounded exhaustive enumeration of the format grammar x arguments, oracle = CPython's formatter executed on the same case",
}
