"""C13 — static and runtime views of declarations agree (kind E, three routes)."""
import ast
import collections
import itertools
import re
import sys
import types

from mc.core import UnitResult

ID = "C13"
PARTS = ['future', 'header', 'method-first-param', 'quoted', 'runtime', 'hheader']      # outcome classes every run must produce (guards against a part of the exploration silently not running)
RULE = ("state A = annotation expression (every form of the typing vocabulary up to the depth bound) read through four routes: source annotation of a checked def, quoted string, "
        "`from __future__ import annotations`, and type_from_runtime(eval(E)); state B = def header (all parameter kinds/defaults, annotated from 4 terms incl. a class that shadows "
        "a builtin; plain, async, generator, async with nested generator) built from the def node (nested def) and from the runtime function object (module-level def, with and "
        "without string annotations); oracle: mutual equality (the per-call consequence in two modules follows from equal signatures and is not enumerated separately)")
ASSUMPTIONS = ["values are compared with == and, failing that, by normalised str()", "TypeVar identity and module-name tokens are normalised"]
MAXTASKS = 10

PRE = '''
import typing, collections.abc
from typing import *
from typing_extensions import NotRequired, LiteralString, Never, Unpack
class A: pass
class memoryview: pass
NT = NewType("NT", int)
class TD(TypedDict):
    a: int
    b: NotRequired[str]
class TDK(TypedDict):
    k1: int
    k2: NotRequired[str]
class HasLen(Protocol):
    def __len__(self) -> int: ...
T = TypeVar("T")
TB = TypeVar("TB", bound=int)
TC = TypeVar("TC", int, str)
def use(x: object) -> None: pass
MyAlias = Dict[str, T]
from annotated_types import Gt
'''

ATOMS = ["int", "None", "str", "A", "memoryview", "NT", "TD", "HasLen", "T", "TB", "TC", "Any", "object", "float", "type", "list", "tuple", "'A'", "LiteralString", "Never", "bytes"]
UNARY = ["Optional[%s]", "%s | None", "list[%s]", "List[%s]", "tuple[%s, ...]", "Tuple[%s, ...]", "tuple[%s]", "type[%s]", "Type[%s]", "Sequence[%s]", "collections.abc.Sequence[%s]",
         "Iterable[%s]", "frozenset[%s]", "set[%s]", "Annotated[%s, 'x']", "Final[%s]", "ClassVar[%s]", "Callable[[%s], None]", "Callable[..., %s]", "collections.abc.Callable[[%s], str]",
         "tuple[int, *tuple[%s, ...]]", "tuple[int, Unpack[tuple[%s, ...]]]", "list['%s']", "typing.Optional[%s]"]
BINARY = ["Union[%s, %s]", "%s | %s", "dict[%s, %s]", "Dict[%s, %s]", "tuple[%s, %s]", "Mapping[%s, %s]", "Callable[[%s], %s]"]
EXTRA = ["tuple[()]", "Literal[1, 'a']", "Literal[None]", "Literal[True]", "Literal[b'a']", "type[Any]", "type[None]", "Optional[Callable[[int], None]]", "dict[str, list[int]]",
         # forms whose quoted spelling goes through other code than the evaluated object: nested / signed literals, a subscripted generic alias, call metadata, bare Tuple
         "Literal[Literal[1, 2], 3]", "Literal[+1]", "Literal[-1]", "MyAlias[int]", "Annotated[int, Gt(0)]", "Tuple", "Literal[1, None]", "Optional[Literal['a', 'b']]"]
SMALL = ["int", "None", "A", "memoryview", "T", "'A'"]


def annotations(tier):
    out = list(ATOMS) + EXTRA
    inner = SMALL if tier == "quick" else ATOMS[:12]
    for u in UNARY:
        for a in inner:
            if "'%s'" in u and a.startswith("'"):
                continue
            out.append(u % a.strip("'") if "'%s'" in u else u % a)
    for b in BINARY:
        for a1, a2 in itertools.product(inner[:4], repeat=2):
            out.append(b % (a1, a2))
    if tier == "thorough":
        d2 = [u % "int" for u in UNARY[:12]]
        for u in UNARY[:12]:
            for x in d2:
                out.append(u % x)
    ns = {}
    exec(PRE, ns)
    seen = []
    for o in out:
        if o in seen:
            continue
        try:
            eval(o, dict(ns))       # only annotations that evaluate at import time belong to "modules that import successfully"
        except Exception:
            continue
        seen.append(o)
    return seen


# ---- def headers ----------------------------------------------------------------------------------

HTYPES = ["int", "memoryview", "list[int]", "Optional[str]"]


def headers(tier):
    from ref import sigs as S
    maxp = 2 if tier == "quick" else 3
    out = []
    for params in S.signatures(maxp):
        nn = [n for k, n, d in params]
        for anns in ([None], HTYPES[:2]) if tier == "quick" else ([None], HTYPES):
            for a in anns:
                ann = {n: a for n in nn} if a else None
                out.append(("def", S.render_params(params, ann=ann), "int"))
    # dunder-prefixed names, return annotations, async / generator variants
    out += [("def", "__x: int, y: str = 'a'", "str"), ("def", "__x, __y", None), ("def", "self, __x: int", "None"), ("def", "a: memoryview, /, *, b: memoryview = None", "memoryview"),
            ("async def", "a: int", "int"), ("async def", "a: memoryview", "str"), ("def+yield", "a: int", "Iterator[int]"), ("async def+yield", "a: int", "AsyncIterator[int]"),
            ("async def+nestedgen", "a: int", "int"), ("def+nestedgen", "a: int", "int"), ("def", "a: 'A', b: 'memoryview' = None", "'A'"), ("def", "*args: memoryview, **kw: A", "None"),
            # variadic parameters described by Unpack (PEP 646 / PEP 692), plain and mixed with other parameters
            ("def", "*args: Unpack[Tuple[int, str]]", "None"), ("def", "**kw: Unpack[TDK]", "None"), ("def", "a: int, *args: Unpack[Tuple[int, str]], **kw: Unpack[TDK]", "int"),
            ("def", "*args: *tuple[int, str]", "None"), ("def", "*args: Unpack[Tuple[int, ...]]", "None"), ("def", "a: Callable[[int], str], b: type[A] = A", "Optional[A]"),
            ("def", "a: Literal[1, 'x'] = 1, *, b: Annotated[int, 'm'] = 0", "Literal[None]"), ("def", "a: T, b: list[T]", "T"), ("def", "a: TB, *args: TB", "TB")]
    # methods: the same headers behind self / cls, positional-only self, class and static methods
    for mk, hdr in (("method", "self"), ("method", "self, /"), ("method", "self, a: int"), ("method", "self, /, a: int"), ("method", "self, /, a: memoryview = None, *, b: int = 0"),
                    ("method", "self, *args: int, **kw: str"), ("classmethod", "cls, a: int"), ("classmethod", "cls, /, a: int"), ("staticmethod", "a: int, b: str = 'x'"),
                    ("method", "this, a: int"), ("method", "self: 'K', a: int")):
        out.append((mk, hdr, "int"))
    return out


def _fn_src(kind, name, header, ret, indent):
    pad = " " * indent
    if kind in ("method", "classmethod", "staticmethod"):
        deco = "" if kind == "method" else pad + "    @%s\n" % kind
        arrow = (" -> %s" % ret) if ret else ""
        # the def-node value of the method is revealed from inside the class body of the module-level class itself (never executed at import)
        # what the def-node builder makes of the first parameter is visible inside the body; the runtime builder's view is in the signature
        first = header.split(",")[0].split(":")[0].strip()
        body = "reveal_type(%s)" % first if kind != "staticmethod" else "reveal_type(a)"
        return "%sclass K%s:\n%s%s    def m(%s)%s:\n%s        %s\n%s        return 1\n" % (pad, name, deco, pad, header.replace("'K'", "'K%s'" % name), arrow, pad, body, pad)
    arrow = (" -> %s" % ret) if ret else ""
    kw = "async def" if kind.startswith("async") else "def"
    if kind.endswith("+yield"):
        body = pad + "    yield 1\n"
    elif kind.endswith("+nestedgen"):
        body = pad + "    def helper():\n" + pad + "        yield 1\n" + pad + "    return 1\n"
    else:
        body = pad + "    ...\n"
    return "%s%s %s(%s)%s:\n%s" % (pad, kw, name, header, arrow, body)


def bounds(tier):
    return {"annotations": len(annotations(tier)), "headers": len(headers(tier)), "routes_per_annotation": 4, "header_routes": 3}


def units(tier):
    na = len(annotations(tier))
    nh = len(headers(tier))
    return [("ann", tier, i, min(na, i + 60)) for i in range(0, na, 60)] + [("hdr", tier, i, min(nh, i + 25)) for i in range(0, nh, 25)] + [("hhdr", tier, i, i + HH_STEP) for i in range(0, 920, HH_STEP)]


def _norm(s):
    from pa.run import norm_text
    s = norm_text(str(s))
    s = re.sub(r"verif_c13_\w+\.", "M.", s)      # keep a module marker: M.memoryview (the class defined in the module) is not builtins' memoryview
    s = re.sub(r"<mod>\.", "M.", s)
    return s


def _eq(a, b):
    try:
        if a == b:
            return True
    except Exception:
        pass
    return _norm(a) == _norm(b)


def _ann(res, tier, lo, hi):
    from pyanalyze.annotations import type_from_runtime
    from pa.run import Rec, check, cleanup_module
    anns = annotations(tier)[lo:hi]
    routes = {}
    for route, future in (("source", False), ("quoted", False), ("future", True)):
        lines = [("from __future__ import annotations\n" if future else "") + PRE]
        for i, f in enumerate(anns):
            if route == "quoted":
                q = f if f.startswith("'") and f.count("'") == 2 else '"%s"' % f.replace('"', '\\"')
                lines.append("def f%d(x: %s) -> None:\n    use(x)" % (i, q))
            else:
                lines.append("def f%d(x: %s) -> None:\n    use(x)" % (i, f))
        code = "\n".join(lines) + "\n"
        try:
            fails, tree, mod = check(code, visitor_cls=Rec, want_module=True)
        except Exception as e:
            # an annotation that cannot even be executed at import time in this route: evaluate one by one
            routes[route] = ("IMPORT-ERROR", repr(e))
            continue
        res.transitions += 1
        vals = {}
        errs = {}
        for fl in fails:
            errs.setdefault(fl.get("lineno"), []).append(fl["code"].name)
        for n in tree.body:
            if isinstance(n, ast.FunctionDef) and re.fullmatch(r"f\d+", n.name):
                arg = n.body[0].value.args[0]
                v = getattr(arg, "_inf", [None])[-1]
                vals[int(n.name[1:])] = (v, errs.get(n.lineno, []))
        routes[route] = (vals, vars(mod) if route == "source" else None)
        if route != "source":
            cleanup_module(mod)
        else:
            srcmod = mod
    ns = routes["source"][1] if isinstance(routes.get("source"), tuple) and routes["source"][0] != "IMPORT-ERROR" else None
    for i, f in enumerate(anns):
        res.states += 1
        order = lo + i
        got = {}
        for r in ("source", "quoted", "future"):
            rv = routes.get(r)
            if rv is None or rv[0] == "IMPORT-ERROR":
                got[r] = ("unavailable", None)
            else:
                v, e = rv[0].get(i, (None, []))
                got[r] = (v, e)
        if ns is not None:
            try:
                rt = type_from_runtime(eval(f, dict(ns)), globals=ns)
                got["runtime"] = (rt, [])
            except Exception as ex:
                got["runtime"] = ("EXC:" + type(ex).__name__, [])
        base_r = "source"
        bv, be = got[base_r]
        form = re.sub(r"\b(int|str|None|A|memoryview|NT|TD|HasLen|TB|TC|T|float|bytes|object)\b", "_", f)
        for r in ("quoted", "future", "runtime"):
            if r not in got:
                continue
            v, e = got[r]
            res.validated += 1
            same = (v is not None and bv is not None and not isinstance(v, str) and not isinstance(bv, str) and _eq(v, bv)) or (isinstance(v, str) and isinstance(bv, str) and v == bv)
            res.outcomes["%s:%s" % (r, "same" if same else "differs")] += 1
            if not same:
                res.violation({"kind": "annotation-routes-differ", "route": r, "form": form, "names": ",".join(sorted(set(re.findall(r"\b(memoryview|'A'|NT|TD|HasLen|TB|TC|T)\b", f))))},
                              {"mode": "ann", "ann": f, "order": order},
                              "annotation %s: source route gives %s%s, %s route gives %s%s" % (f, _norm(bv), (" " + str(be)) if be else "", r, _norm(v), (" " + str(e)) if e else ""))
        if order % 97 == 0:
            res.sample({"annotation": f, "source": _norm(bv), "runtime": _norm(got.get("runtime", ("?",))[0])})
    if ns is not None:
        cleanup_module(srcmod)


_MODCOUNT = [0]


def _hdr(res, tier, lo, hi):
    from pa.run import Rec, check, cleanup_module, get_checker, diag
    from pyanalyze import analysis_lib
    hs = headers(tier)[lo:hi]
    ck = get_checker()
    for future in (False, True):
        # module A: nested defs (def-node route) and module-level defs (runtime route); registered under an importable name
        _MODCOUNT[0] += 1
        modname = "verif_c13_m%d_%d" % (lo, _MODCOUNT[0])
        parts = [("from __future__ import annotations\n" if future else "") + PRE]
        for i, (kind, header, ret) in enumerate(hs):
            parts.append(_fn_src(kind, "m%d" % i, header, ret, 0))
        parts.append("def outer() -> None:\n    pass\n")
        for i, (kind, header, ret) in enumerate(hs):
            if kind in ("method", "classmethod", "staticmethod"):
                continue
            parts.append(_fn_src(kind, "g%d" % i, header, ret, 4))
            if kind not in ("method", "classmethod", "staticmethod"):
                parts.append("    reveal_type(g%d)\n" % i)
        codeA = "".join(parts)
        mod = types.ModuleType(modname)
        mod.__dict__["__file__"] = modname + ".py"
        try:
            exec(compile(codeA, modname + ".py", "exec"), mod.__dict__)
        except Exception as e:
            res.extra["module_import_failed"] += 1
            continue
        sys.modules[modname] = mod
        try:
            import contextlib
            import io
            from pyanalyze.name_check_visitor import ClassAttributeChecker
            tree = ast.parse(codeA)
            with contextlib.redirect_stderr(io.StringIO()), contextlib.redirect_stdout(io.StringIO()):
                with ClassAttributeChecker(enabled=True, options=ck.options) as ac:
                    v = Rec(modname + ".py", codeA, tree, module=mod, attribute_checker=ac, checker=ck)
                    fails = v.check()
            res.transitions += 1
            revealed = {}
            for fl in fails:
                if fl["code"].name == "reveal_type":
                    revealed[fl["lineno"]] = fl["description"]
            lines = codeA.split("\n")
            for i, (kind, header, ret) in enumerate(hs):
                res.states += 1
                order = (lo + i) * 2 + int(future)
                is_m = kind in ("method", "classmethod", "staticmethod")
                if is_m and kind != "method":
                    continue        # for class/static methods the underlying function object does not say how it is bound: no runtime view of the first parameter
                if is_m:
                    start = next(k for k, l in enumerate(lines) if l.strip() == "class Km%d:" % i)
                    ln = next(k + 1 for k in range(start, len(lines)) if lines[k].strip().startswith("reveal_type("))
                    m = re.search(r"Revealed type is '(.*)'", revealed.get(ln, ""), re.S)
                    body_type = _norm(m.group(1)) if m else _norm(revealed.get(ln, ""))
                    fobj = getattr(mod, "Km%d" % i).__dict__["m"]
                    fobj = getattr(fobj, "__func__", fobj)
                    sig = ck.arg_spec_cache.get_argspec(fobj)
                    res.validated += 1
                    rt_first = "None"
                    if sig is not None and hasattr(sig, "parameters") and sig.parameters:
                        p0 = list(sig.parameters.values())[0]
                        rt_first = _norm(p0.annotation if p0.annotation is not None else "Any[unannotated]")
                    body_type2 = re.sub(r"\bKm\d+\b", "K", body_type)
                    rt_first2 = re.sub(r"\bKm\d+\b", "K", rt_first)
                    same = body_type2 == rt_first2 or (kind == "classmethod" and body_type2.replace("type[", "").rstrip("]") in rt_first2)
                    res.outcomes["method-first-param:%s" % ("same" if same else "differs")] += 1
                    if not same:
                        res.violation({"kind": "signature-routes-differ", "defkind": kind, "future": str(int(future)), "dunder": "0", "header": re.sub(r"\b(int|memoryview|str)\b", "_", header)},
                                      {"mode": "hdr", "header": [kind, header, ret], "future": future, "order": order},
                                      "%s m(%s): inside the body the first parameter is %s (def-node route); the signature built from the function object gives it %s%s"
                                      % (kind, header, body_type2, rt_first2, " [future annotations]" if future else ""))
                    continue
                else:
                    ln = next(k + 1 for k, l in enumerate(lines) if l.strip() == "reveal_type(g%d)" % i)
                ast_sig = revealed.get(ln, "")
                m = re.search(r"Revealed type is '(.*)'", ast_sig, re.S)
                ast_sig = _norm(m.group(1)) if m else _norm(ast_sig)
                try:
                    sig = ck.arg_spec_cache.get_argspec(getattr(getattr(mod, "Km%d" % i), "m") if is_m else getattr(mod, "m%d" % i))
                except Exception as e:
                    res.violation({"kind": "runtime-route-raises", "exc": type(e).__name__, "defkind": kind}, {"mode": "hdr", "header": [kind, header, ret], "future": future, "order": order},
                                  "get_argspec raised %r for %s f(%s)" % (e, kind, header))
                    continue
                rt_sig = _norm(sig) if sig is not None else "None"
                res.validated += 1
                a2 = re.sub(r"\bK?g\d+\b", "F", ast_sig)
                r2 = re.sub(r"\bK?m\d+\b", "F", rt_sig)
                same = _sigeq(a2, r2)
                res.outcomes["header:%s" % ("same" if same else "differs")] += 1
                if not same:
                    hk = re.sub(r"\b[a-z]\b|\b__[xy]\b", "p", header)
                    res.violation({"kind": "signature-routes-differ", "defkind": kind, "future": str(int(future)), "dunder": str(int("__" in header)), "header": re.sub(r"\b(int|memoryview|list\[int\]|Optional\[str\])\b", "_", hk)},
                                  {"mode": "hdr", "header": [kind, header, ret], "future": future, "order": order},
                                  "%s f(%s)%s%s: def-node route gives %s, runtime route gives %s" % (kind, header, (" -> " + ret) if ret else "", " [future annotations]" if future else "", a2, r2))
                if order % 61 == 0:
                    res.sample({"header": "%s f(%s)" % (kind, header), "def_node": a2, "runtime": r2})
        finally:
            sys.modules.pop(modname, None)


def _sigeq(a, b):
    def canon(s):
        s = re.sub(r"\s+", " ", s.strip())
        s = re.sub(r"^function '?[\w.<> ]*'?, signature is ", "", s)
        s = re.sub(r"Literal\[<function [^>]*>\]", "", s)
        # an unannotated parameter is Any in both builders; the def-node builder additionally records the default's type
        s = re.sub(r": Any\[unannotated\]( \| [^=,)]*?)?(?= =|,|\)| /)", "", s)
        s = s.replace(": tuple[Any[unannotated], ...]", "").replace(": dict[str, Any[unannotated]]", "")
        s = s.replace(" = ", "=")
        return s
    return canon(a) == canon(b)


# ---- the def headers of pyanalyze's own test programs (ref/harvest.py): every undecorated module-level function of every program ---------------
HH_STEP = 40


def _hprogs():
    from props.c10_harvest import hcorpus
    return hcorpus()


def _harv_hdr(res, tier, lo, hi, only=None):
    """For every undecorated module-level `def f(...)` of a harvested program: a copy of the def is placed inside a new function (def-node route: no function
    object exists for it) followed by reveal_type(copy); the signature pyanalyze builds from that def node must equal the one it builds from the function
    object of the original (runtime route)."""
    import copy
    from pa.run import check, cleanup_module, get_checker, test_module_factory
    ck = get_checker()
    H = _hprogs()
    for pi in range(lo, min(hi, len(H))):
        name, src, settings = H[pi]
        if only is not None and name != only[0]:
            continue
        try:
            tree = ast.parse(src)
        except SyntaxError:
            continue
        if "TYPE_CHECKING" in src:
            res.outcomes["hheader:type-checking-only-names"] += 1
            continue        # names imported under `if TYPE_CHECKING:` do not exist at run time: the two views cannot agree by construction
        counts = collections.Counter(n.name for n in ast.walk(tree) if isinstance(n, (ast.FunctionDef, ast.AsyncFunctionDef)))
        # a name defined more than once is an @overload / @evaluated family: the runtime route looks the family up by name, the last def alone is not it
        defs = [n for n in tree.body if isinstance(n, ast.FunctionDef) and not n.decorator_list and counts[n.name] == 1]
        if not defs:
            res.outcomes["hheader:no-plain-def"] += 1
            continue
        body = []
        for n in defs:
            c = copy.deepcopy(n)
            c.name = "verif_copy_of_" + n.name
            c.body = [ast.Pass()]
            body.append(c)
            body.append(ast.Expr(ast.Call(ast.Name("reveal_type", ast.Load()), [ast.Name(c.name, ast.Load())], [])))
        outer = ast.FunctionDef(name="verif_outer", args=ast.arguments(posonlyargs=[], args=[], kwonlyargs=[], kw_defaults=[], defaults=[]), body=body, decorator_list=[], type_params=[])
        code = src.rstrip("\n") + "\n\n\n" + ast.unparse(ast.fix_missing_locations(ast.Module([outer], []))) + "\n"
        try:
            fails, t2, mod = check(code, checker=ck, want_module=True, module_factory=test_module_factory())
        except Exception as e:
            res.outcomes["hheader:unloadable"] += 1
            continue
        res.transitions += 1
        try:
            rev = {}
            for fl in fails:
                if fl["code"].name == "reveal_type":
                    rev[fl["lineno"]] = fl["description"]
            lines = code.split("\n")
            for n in defs:
                if only is not None and n.name != only[1]:
                    continue
                res.states += 1
                ln = next((k + 1 for k, l in enumerate(lines) if l.strip() == "reveal_type(verif_copy_of_%s)" % n.name), None)
                m = re.search(r"Revealed type is '(.*)'", rev.get(ln, ""), re.S)
                if not m:
                    res.outcomes["hheader:not-revealed"] += 1
                    continue
                ast_sig = _norm(m.group(1))
                fobj = getattr(mod, n.name, None)
                if not isinstance(fobj, types.FunctionType):
                    res.outcomes["hheader:rebound"] += 1
                    continue
                case = {"mode": "hhdr", "name": name, "def": n.name, "order": 10 ** 7 + pi * 100}
                try:
                    sig = ck.arg_spec_cache.get_argspec(fobj)
                except Exception as e:
                    res.violation({"kind": "runtime-route-raises", "exc": type(e).__name__, "defkind": "harvested"}, case, "get_argspec raised %r for %s of %s" % (e, n.name, name))
                    continue
                rt_sig = _norm(sig) if sig is not None else "None"
                res.validated += 1
                strip = lambda t: re.sub(r" \(Protocol with members [^()]*\)", "", t)      # printed only once the type object has been resolved: representation
                ast_sig, rt_sig = strip(ast_sig), strip(rt_sig)
                a2 = re.sub(r"\bverif_copy_of_\w+", "F", ast_sig)
                a2 = re.sub(r"\bverif_outer\.<locals>\.", "", a2)
                r2 = re.sub(r"(^|[ .'])%s(?=$| \(|')" % re.escape(n.name), r"\1F", rt_sig)
                same = _sigeq(a2, r2)
                res.outcomes["hheader:%s" % ("same" if same else "differs")] += 1
                if not same:
                    hdr = ast.unparse(n.args)
                    feats = "+".join(f for f, t in (("posonly", bool(n.args.posonlyargs)), ("vararg", bool(n.args.vararg)), ("kwonly", bool(n.args.kwonlyargs)), ("kwarg", bool(n.args.kwarg)),
                                                    ("default", bool(n.args.defaults or any(n.args.kw_defaults))), ("returns", n.returns is not None), ("string-ann", "'" in hdr or '"' in hdr)) if t)
                    res.violation({"kind": "signature-routes-differ", "defkind": "harvested", "features": feats, "program": name}, case,
                                  "def %s(%s)%s of test-suite program %s: def-node route gives %s, runtime route gives %s" % (n.name, hdr, (" -> " + ast.unparse(n.returns)) if n.returns else "", name, a2, r2))
        finally:
            cleanup_module(mod)
    res.sample({"harvested_headers_range": [lo, hi]})


def run_unit(unit):
    kind, tier, lo, hi = unit
    res = UnitResult()
    if kind == "hhdr":
        _harv_hdr(res, tier, lo, hi)
        return res
    if kind == "ann":
        _ann(res, tier, lo, hi)
    else:
        _hdr(res, tier, lo, hi)
    return res


def replay(case):
    res = UnitResult()
    if case["mode"] == "hhdr":
        names = [n for n, _, _ in _hprogs()]
        i = names.index(case["name"])
        _harv_hdr(res, "quick", i, i + 1, only=(case["name"], case["def"]))
        return list(res.viol.values())
    for tier in ("quick", "thorough"):
        if case["mode"] == "ann":
            anns = annotations(tier)
            if case["ann"] in anns:
                i = anns.index(case["ann"])
                _ann(res, tier, i, i + 1)
                break
        else:
            hs = headers(tier)
            h = tuple(case["header"])
            if h in hs:
                i = hs.index(h)
                _hdr(res, tier, i, i + 1)
                break
    return list(res.viol.values())


META = {
    "text": "Every annotation of the bounded typing vocabulary is evaluated through four routes (source, quoted, future-annotations, runtime object) and every def header (all "
            "parameter kinds, annotated incl. a class shadowing a builtin, async/generator variants) through the def-node builder and the runtime-signature builder, with and "
            "without string annotations; all results must agree.",
    "note": "Differential oracle: no hand-written expected value; equality up to module-name tokens.",
    "technique": "bounded exhaustive enumeration of annotation forms / def headers, differential comparison of the real evaluators (commuting diagram)",
}
