"""C07 — callable compatibility is behaviourally sound (kind E)."""
import itertools

from mc.core import UnitResult
from ref import sigs as S

ID = "C07"
PARTS = ['callable', 'literal', 'override', 'typed']      # outcome classes every run must produce (guards against a part of the exploration silently not running)
RULE = ("state = ordered pair (expected, actual) of def signatures over all parameter kinds/default patterns with parameter names drawn injectively from a 3-name pool, "
        "plus typed pairs; real calls: KnownValue(expected).can_assign(KnownValue(actual)) (function-literal route) and CallableValue(signature).can_assign (Callable route); "
        "oracle: bind tables computed by really calling both functions with every call shape (<= 3 positionals, <= 3 keywords): accepted and expected binds c => actual binds c; "
        "typed: every argument assignment accepted by expected's annotations is accepted by actual's (contravariance), return members covariant")
ASSUMPTIONS = ["CPython binding of real calls", "ref/member.py for typed parameters", "names pool {a, b, x}: collisions between positional and keyword use are forced"]
MAXTASKS = 30
NAMES = "abx"


def name_sigs(maxp):
    out = []
    for params in S.signatures(maxp):
        nnamed = sum(1 for k, n, d in params if k in ("po", "pk", "ko"))
        for names in itertools.permutations(NAMES, nnamed):
            it = iter(names)
            newp = []
            for k, n, d in params:
                if k in ("po", "pk", "ko"):
                    newp.append((k, next(it), d))
                elif k == "va":
                    newp.append((k, "args", d))
                else:
                    newp.append((k, "kw", d))
            out.append(tuple(newp))
    return out


def call_shapes():
    out = []
    for npos in range(0, 4):
        for r in range(0, 4):
            for kws in itertools.combinations(NAMES + "z", r):
                out.append((npos, kws))
    out.sort(key=lambda c: c[0] + len(c[1]))
    return out


TYPES = ["int", "float", "str", "object"]


def typed_sigs():
    """(source, params, annotations, return) — positional-or-keyword parameters a, b."""
    out = []
    for ret in TYPES:
        for t1 in TYPES:
            out.append(("def f(a: %s) -> %s: ..." % (t1, ret), ["a"], {"a": t1}, ret))
            for t2 in TYPES[:3]:
                out.append(("def f(a: %s, b: %s) -> %s: ..." % (t1, t2, ret), ["a", "b"], {"a": t1, "b": t2}, ret))
                out.append(("def f(a: %s, *, b: %s = 0) -> %s: ..." % (t1, t2, ret), ["a", "b"], {"a": t1, "b": t2}, ret))
    return out


def bounds(tier):
    mp = 2 if tier == "quick" else 3
    n = len(name_sigs(mp))
    return {"max_params": mp, "signatures": n, "pairs": n * n, "call_shapes": len(call_shapes()), "typed_signatures": len(typed_sigs())}


def units(tier):
    mp = 2 if tier == "quick" else 3
    n = len(name_sigs(mp))
    step = 8 if tier == "quick" else 25
    no = len(_override_sigs(tier))
    return ([("untyped", tier, i, min(n, i + step)) for i in range(0, n, step)] + [("typed", tier, 0, 0)]
            + [("override", tier, i, i + 1) for i in range(no)] + [("override-kinds", tier, 0, 0)])


def _override_sigs(tier):
    """method signatures (after self) for the override route: every shape with <= 1 parameter (quick) / a 2-parameter slice (thorough), names permuted"""
    sigs = name_sigs(1)
    if tier == "thorough":
        sigs = sigs + [p for p in name_sigs(2) if len(p) == 2][::9]
    return sigs


def _override_kinds(res, tier, only=None):
    """single inheritance, the method declared as plain method / staticmethod / classmethod in base and subclass alike: an override that is not reported
    must bind every call shape the base method binds"""
    from pyanalyze.error_code import ErrorCode
    from pa.run import check, get_checker
    sigs = _override_sigs(tier)
    shapes = call_shapes()
    ck = get_checker("c07ov", settings={ErrorCode.incompatible_override: True})

    def table(params):
        ns = {}
        exec("def f(%s): pass" % S.render_params(params), ns)
        row = 0
        for i, (npos, kws) in enumerate(shapes):
            try:
                ns["f"](*([0] * npos), **{k: 0 for k in kws})
                row |= 1 << i
            except TypeError:
                pass
        return row
    tabs = [table(p) for p in sigs]
    for kind, deco, first in (("staticmethod", "    @staticmethod\n", ""), ("classmethod", "    @classmethod\n", "cls"), ("method", "", "self")):
        lines, cases = [], []
        for ai, pa_ in enumerate(sigs):
            for ci, pc in enumerate(sigs):
                if only is not None and [kind, ai, ci] != only:
                    continue
                k = len(cases)
                hdr = lambda p: ", ".join(x for x in (first, S.render_params(p)) if x)
                lines.append("class A%d:\n%s    def m(%s): pass\nclass C%d(A%d):\n%s    def m(%s): pass\n" % (k, deco, hdr(pa_), k, k, deco, hdr(pc)))
                cases.append((ai, ci))
        src = "".join(lines)
        fails = check(src, checker=ck)
        res.transitions += 1
        per = 4 + 2 * bool(deco)
        bad_lines = {f.get("lineno") for f in fails if f["code"].name == "incompatible_override"}
        for k, (ai, ci) in enumerate(cases):
            res.states += 1
            res.validated += 1
            blk = range(per * k + 1, per * k + per + 1)
            diagnosed = any(l in bad_lines for l in blk)
            miss = tabs[ai] & ~tabs[ci]
            res.outcomes["override:%s/accepted=%s/sound=%s" % (kind, not diagnosed, not miss)] += 1
            if not diagnosed and miss:
                kk = (miss & -miss).bit_length() - 1
                npos, kws = shapes[kk]
                call = "(%s)" % ", ".join(["0"] * npos + ["%s=0" % x for x in kws])
                le, la = _canon(sigs[ai], sigs[ci])
                try:
                    nsx = {}
                    exec("def f(%s): pass" % S.render_params(sigs[ci]), nsx)
                    nsx["f"](*([0] * npos), **{x: 0 for x in kws})
                    why = "binds?"
                except TypeError as e:
                    msg = str(e)
                    why = ("multiple-values" if "multiple values" in msg else "missing" if "missing" in msg else "unexpected-kw" if "unexpected keyword" in msg
                           else "posonly-as-kw" if "positional-only" in msg else "too-many-pos" if "positional argument" in msg else "other")
                res.violation({"kind": "override-unsound-accept", "which": kind, "expected": le, "actual": la, "cpython": why},
                              {"mode": "override-kinds", "tier": tier, "case": [kind, ai, ci], "order": 3 * 10 ** 9 + k},
                              "%s m(%s) in the base class, m(%s) in the subclass: not reported as an incompatible override, yet A.m%s binds and C.m%s raises TypeError"
                              % (kind, S.render_params(sigs[ai]), S.render_params(sigs[ci]), call, call))
    res.sample({"override_kinds": ["staticmethod", "classmethod", "method"], "signatures": len(sigs)})


def _override(res, tier, ci, only=None):
    """entry point `overrides`: class C(B, A) with m defined in all three; accepted (no incompatible_override) must mean that every call
    shape either base's m binds is bound by C.m too - for every base, not only the first in the MRO"""
    from pyanalyze.error_code import ErrorCode
    from pa.run import check, get_checker
    sigs = _override_sigs(tier)
    shapes = call_shapes()
    ck = get_checker("c07ov", settings={ErrorCode.incompatible_override: True})

    def table(params):
        ns = {}
        exec("def f(self%s): pass" % ((", " + S.render_params(params)) if params else ""), ns)
        row = 0
        for i, (npos, kws) in enumerate(shapes):
            try:
                ns["f"](None, *([0] * npos), **{k: 0 for k in kws})
                row |= 1 << i
            except TypeError:
                pass
        return row
    tabs = [table(p) for p in sigs]
    pc = sigs[ci]
    lines = []
    cases = []
    for ai, pa_ in enumerate(sigs):
        for bi, pb in enumerate(sigs):
            if only is not None and [ai, bi] != only:
                continue
            k = len(cases)
            hdr = lambda p: "self" + ((", " + S.render_params(p)) if p else "")
            lines.append("class A%d:\n    def m(%s): pass\nclass B%d:\n    def m(%s): pass\nclass C%d(B%d, A%d):\n    def m(%s): pass\n" % (k, hdr(pa_), k, hdr(pb), k, k, k, hdr(pc)))
            cases.append((ai, bi))
    src = "".join(lines)
    fails = check(src, checker=ck)
    res.transitions += 1
    bad_lines = {f.get("lineno") for f in fails if f["code"].name == "incompatible_override"}
    for k, (ai, bi) in enumerate(cases):
        res.states += 1
        res.validated += 1
        line_c = 6 * k + 6
        diagnosed = line_c in bad_lines
        missA = tabs[ai] & ~tabs[ci]
        missB = tabs[bi] & ~tabs[ci]
        sound = not (missA or missB)
        res.outcomes["override:accepted=%s/sound=%s" % (not diagnosed, sound)] += 1
        if not diagnosed and not sound:
            which = "second-base" if (missA and not missB) else ("first-base" if (missB and not missA) else "both-bases")
            bad = missA or missB
            kk = (bad & -bad).bit_length() - 1
            npos, kws = shapes[kk]
            call = "(%s)" % ", ".join(["0"] * npos + ["%s=0" % x for x in kws])
            le, la = _canon(sigs[ai] if missA else sigs[bi], pc)
            try:
                nsx = {}
                exec("def f(self%s): pass" % ((", " + S.render_params(pc)) if pc else ""), nsx)
                nsx["f"](None, *([0] * npos), **{x: 0 for x in kws})
                why = "binds?"
            except TypeError as e:
                msg = str(e)
                why = ("multiple-values" if "multiple values" in msg else "missing" if "missing" in msg else "unexpected-kw" if "unexpected keyword" in msg
                       else "posonly-as-kw" if "positional-only" in msg else "too-many-pos" if "positional argument" in msg else "other")
            res.violation({"kind": "override-unsound-accept", "which": which, "expected": le, "actual": la, "cpython": why},
                          {"mode": "override", "tier": tier, "c": ci, "pair": [ai, bi], "order": 2 * 10 ** 9 + ci * 10 ** 5 + k},
                          "class C(B, A): A.m(self, %s), B.m(self, %s), C.m(self, %s) is not reported as an incompatible override, yet %s.m%s binds and C.m%s raises TypeError"
                          % (S.render_params(sigs[ai]), S.render_params(sigs[bi]), S.render_params(pc), "A" if missA else "B", call, call))
    if ci % 7 == 0:
        res.sample({"C.m": "def m(self, %s)" % S.render_params(pc), "bases": len(cases)})


_C = {}


def _setup(tier):
    if tier in _C:
        return _C[tier]
    from pa.run import get_checker
    mp = 2 if tier == "quick" else 3
    sigs = name_sigs(mp)
    shapes = call_shapes()
    fns = []
    table = []
    for params in sigs:
        ns = {}
        exec("def f(%s): pass" % S.render_params(params), ns)
        f = ns["f"]
        fns.append(f)
        row = 0
        for i, (npos, kws) in enumerate(shapes):
            try:
                f(*([0] * npos), **{k: 0 for k in kws})
                row |= 1 << i
            except TypeError:
                pass
        table.append(row)
    _C[tier] = (sigs, shapes, fns, table, get_checker())
    return _C[tier]


def _canon(pe, pa):
    """Signature labels with names canonicalised by first occurrence over the pair."""
    m = {}

    def lab(params):
        out = []
        for k, n, d in params:
            if k in ("va", "vk"):
                out.append(k)
            else:
                m.setdefault(n, "N%d" % (len(m) + 1))
                out.append("%s:%s%s" % (k, m[n], "=" if d else ""))
        return ",".join(out)
    return lab(pe), lab(pa)


def _accept(a, b, ck):
    from pyanalyze.value import CanAssignError
    return not isinstance(a.can_assign(b, ck), CanAssignError)


def _untyped(res, tier, lo, hi, only_j=None):
    from pyanalyze.value import CallableValue, KnownValue
    sigs, shapes, fns, table, ck = _setup(tier)
    n = len(sigs)
    kvs = [KnownValue(f) for f in fns]
    for i in range(lo, hi):
        sig_i = ck.signature_from_value(kvs[i])
        cv = CallableValue(sig_i) if sig_i is not None else None
        for j in range(n):
            if only_j is not None and j != only_j:
                continue
            res.states += 1
            order = i * n + j
            verdicts = {}
            try:
                verdicts["literal"] = _accept(kvs[i], kvs[j], ck)
                if cv is not None:
                    verdicts["callable"] = _accept(cv, kvs[j], ck)
            except Exception as e:
                res.violation({"kind": "raises", "exc": type(e).__name__}, {"mode": "untyped", "i": i, "j": j, "order": order},
                              "can_assign raised %r for expected def f(%s) <- actual def g(%s)" % (e, S.render_params(sigs[i]), S.render_params(sigs[j])))
                continue
            res.transitions += len(verdicts)
            bad = table[i] & ~table[j]
            for route, acc in verdicts.items():
                res.validated += 1
                res.outcomes["%s:accepted=%s/sound=%s" % (route, acc, bad == 0)] += 1
                if acc and bad:
                    k = (bad & -bad).bit_length() - 1
                    npos, kws = shapes[k]
                    le, la = _canon(sigs[i], sigs[j])
                    call = "(%s)" % ", ".join(["0"] * npos + ["%s=0" % x for x in kws])
                    try:
                        fns[j](*([0] * npos), **{x: 0 for x in kws})
                        why = "binds?"
                    except TypeError as e:
                        msg = str(e)
                        why = ("multiple-values" if "multiple values" in msg else "missing" if "missing" in msg else "unexpected-kw" if "unexpected keyword" in msg
                               else "posonly-as-kw" if "positional-only" in msg else "too-many-pos" if "positional argument" in msg else "other")
                    res.violation({"kind": "unsound-accept", "route": route, "expected": le, "actual": la, "pair": le + " <- " + la, "cpython": why},
                                  {"mode": "untyped", "i": i, "j": j, "order": order},
                                  "expected def f(%s) accepts actual def g(%s) [%s route], yet f%s binds and g%s raises TypeError"
                                  % (S.render_params(sigs[i]), S.render_params(sigs[j]), route, call, call))
            if len(set(verdicts.values())) > 1:
                res.extra["routes_disagree"] += 1
        if i % 25 == 0:
            res.sample({"expected": "def f(%s)" % S.render_params(sigs[i]), "actual": "def g(%s)" % S.render_params(sigs[(i * 7 + 3) % n]),
                        "accepted": _accept(kvs[i], kvs[(i * 7 + 3) % n], ck)})


def _typed(res, tier, only=None):
    from pyanalyze.value import CallableValue, KnownValue
    from pa.run import get_checker
    from ref.member import member
    ck = get_checker()
    ts = typed_sigs()
    objs = [1, True, 1.5, "a", None, (1,)]
    py = {"int": int, "float": float, "str": str, "object": object}
    fns = []
    for src, names, ann, ret in ts:
        ns = {}
        exec(src, ns)
        fns.append(ns["f"])
    kvs = [KnownValue(f) for f in fns]
    n = len(ts)
    for i in range(n):
        for j in range(n):
            if only is not None and (i, j) != tuple(only):
                continue
            res.states += 1
            acc = _accept(kvs[i], kvs[j], ck)
            res.transitions += 1
            se, ne, ae, re_ = ts[i]
            sa, na, aa, ra = ts[j]
            # structural binding compatibility is the untyped part's subject: only pairs with the same header shape are judged here
            same_shape = se.split("->")[0].replace(ae.get("a", ""), "T").replace(ae.get("b", "?"), "T") == sa.split("->")[0].replace(aa.get("a", ""), "T").replace(aa.get("b", "?"), "T")
            if not same_shape:
                continue
            res.validated += 1
            contra = all(member(o, py[aa[p]]) for p in ne for o in objs if member(o, py[ae[p]]))
            cov = all(member(o, py[re_]) for o in objs if member(o, py[ra]))
            res.outcomes["typed:accepted=%s/sound=%s" % (acc, contra and cov)] += 1
            if acc and not (contra and cov):
                res.violation({"kind": "typed-unsound-accept", "why": "contravariance" if not contra else "covariance",
                               "exp_types": "%s->%s" % (",".join(ae[p] for p in ne), re_), "act_types": "%s->%s" % (",".join(aa[p] for p in na), ra)},
                              {"mode": "typed", "pair": [i, j], "order": 10 ** 9 + i * n + j},
                              "expected `%s` accepts actual `%s` although %s" % (se, sa, "an argument accepted by the expected parameter type is not accepted by the actual one"
                                                                                 if not contra else "the actual return type is not contained in the expected one"))
            if not acc and contra and cov and i == j:
                res.violation({"kind": "typed-not-reflexive"}, {"mode": "typed", "pair": [i, j], "order": 10 ** 9 + i * n + j}, "`%s` does not accept itself" % se)


def run_unit(unit):
    kind, tier, lo, hi = unit
    res = UnitResult()
    if kind == "untyped":
        _untyped(res, tier, lo, hi)
    elif kind == "override-kinds":
        _override_kinds(res, tier)
    elif kind == "override":
        _override(res, tier, lo)
    else:
        _typed(res, tier)
    return res


def replay(case):
    res = UnitResult()
    if case["mode"] == "override-kinds":
        _override_kinds(res, case.get("tier", "quick"), only=case["case"])
        return list(res.viol.values())
    if case["mode"] == "override":
        _override(res, case.get("tier", "quick"), case["c"], only=case["pair"])
        return list(res.viol.values())
    if case["mode"] == "untyped":
        tier = "quick" if case["i"] < len(name_sigs(2)) and case["j"] < len(name_sigs(2)) and case.get("order", 0) == case["i"] * len(name_sigs(2)) + case["j"] else "thorough"
        _untyped(res, tier, case["i"], case["i"] + 1, only_j=case["j"])
    else:
        _typed(res, "quick", only=case["pair"])
    return list(res.viol.values())


META = {
    "text": "All ordered pairs of def signatures (all kinds/defaults, names permuted over a 3-name pool; <= 2 parameters quick = 229^2 pairs, <= 3 thorough) are passed to the real "
            "can_assign through the function-literal and the Callable route; for every accepted pair all 60 call shapes are compared on real bind tables. Typed pairs over "
            "{int, float, str, object} are judged by membership contravariance/covariance.",
    "note": "Trusted: CPython binding (each table entry is a real call), ref/member.py.",
    "technique": "bounded exhaustive enumeration of signature pairs against the real Signature.can_assign, oracle = bind tables from real calls + membership model",
}
