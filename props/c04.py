"""C04 — type-to-type assignability is reflexive and sound for membership (kind E)."""
import re

from mc.core import UnitResult
from ref import terms as T
from ref import universe as U

ID = "C04"
PARTS = ['anyterm', 'generics', 'law', 'protocol', 'source', 'td', 'union-right']      # outcome classes every run must produce (guards against a part of the exploration silently not running)
RULE = ("state = ordered pair (A, B) of Any-free static type terms (all pairs up to the depth bound), plus triples for the union laws; real call: "
        "value(A).can_assign(value(B), Checker) with and without exclude-Any; oracle: subset of extensions over the generated universe U "
        "(accepted and some o in B\\A => violation), reflexivity, Never/object, union laws, Any laws, exclude-Any monotonicity")
ASSUMPTIONS = ["soundness is judged with counterexample objects from a finite universe: it can miss counterexamples, never invent them",
               "the three leniencies named by the property (bare generics, fixed tuple <- variadic tuple, mocks) are excluded syntactically (DESIGN.md 6.1)"]
MAXTASKS = 20
DEPTH = {"quick": 2, "thorough": 3}
ANYTERMS = ["Any", "list[Any]", "Optional[Any]", "tuple[Any, ...]", "dict[str, Any]", "Sequence[Any]", "tuple[int, Any]", "type[Any]", "Union[int, Any]", "dict[Any, Any]"]
BARE = re.compile(r"(?<![\w\[])(tuple|list|dict|type)(?!\[)")


def _terms(tier):
    ts = [t for t in T.terms(DEPTH[tier])]
    if tier == "thorough":
        # depth 3 is restricted to one nesting path per depth-2 term (first constructor of depth3()) to keep the pair space at ~1e7
        base = T.terms(2)
        d3 = [t for t in T.depth3() if t.startswith(("Optional[", "list[", "tuple["))]
        ts = base + d3[::2]
    return ts


def bounds(tier):
    n = len(_terms(tier))
    return {"type_depth": DEPTH[tier], "terms": n, "pairs": n * n, "objects": len(U.universe("quick"))}


def units(tier):
    n = len(_terms(tier))
    step = 10 if tier == "quick" else 12
    return ([("pairs", tier, i, min(n, i + step)) for i in range(0, n, step)] + [("laws", tier, i, min(n, i + 40)) for i in range(0, n, 40)]
            + [("typeddict", tier, 0, 0)] + [("protocol", tier, k, 0) for k in range(4)]
            + [("source", tier, i, min(len(_src_terms(tier)), i + 4)) for i in range(0, len(_src_terms(tier)), 4)]
            + [("generics", tier, 0, 0)])


def _src_terms(tier):
    """terms for the second route (`def f(b: B): y: A = b` in checked source): all depth-1 terms and one representative per depth-2 constructor"""
    ts = [t for t in T.BASE if t not in ("tuple", "list", "dict", "type")]
    for t in T.depth2():
        if "*tuple" in t or t.startswith("List["):
            continue
        args = re.findall(r"\b(int|str|None|float|bool|A|E|Literal\[1\])\b", t)
        if tier == "thorough" or all(a in ("int", "str", "None") for a in args):
            ts.append(t)
    out = []
    for t in ts:
        if t not in out:
            out.append(t)
    return out


_CACHE = {}


def _setup(tier):
    if tier in _CACHE:
        return _CACHE[tier]
    from pa.run import get_checker
    from ref.member import Unsupported, member
    from ref.values import value_of
    ns = U.prelude_ns()
    objs = [eval(s, ns) for s in U.universe("quick")]
    terms = _terms(tier)
    vals = {}
    ext = {}
    for t in terms + ANYTERMS:
        rt = eval(t, ns)
        vals[t] = value_of(rt)
        if t in ANYTERMS:
            continue
        e = 0
        ok = True
        for i, o in enumerate(objs):
            try:
                if member(o, rt):
                    e |= 1 << i
            except Unsupported:
                pass        # object left out of this type's extension and of its complement (no verdict from it)
        ext[t] = e
    unsup = {}
    for t in terms:
        rt = eval(t, ns)
        m = 0
        for i, o in enumerate(objs):
            try:
                member(o, rt)
            except Unsupported:
                m |= 1 << i
        unsup[t] = m
    _CACHE[tier] = (terms, vals, ext, unsup, objs, get_checker(), ns)
    return _CACHE[tier]


def _lenient(a, b):
    """The leniencies the property names (DESIGN.md 6.1)."""
    if BARE.search(a) or BARE.search(b):
        return "bare-generic"
    fixed_a = re.search(r"tuple\[(?![^\]]*\.\.\.)[^\]]*\]", a) is not None
    variadic_b = "..." in b
    if fixed_a and variadic_b:
        return "fixed<-variadic"
    if "*tuple" in a and "..." in b:
        return "fixed<-variadic"
    return None


def _skel(t):
    """Atoms abstracted by sort: scalars -> _s, plain classes -> _c; enums, NewType, TypedDict and builtin subclasses stay visible."""
    t = re.sub(r"Literal\[[^\]]*\]", "Lit", t)
    t = re.sub(r"\b(int|str|float|bool|complex|bytes)\b", "_s", t)
    return re.sub(r"\b(A|B|C|D|DC)\b", "_c", t)


def _accepts(a, b, ck):
    from pyanalyze.value import CanAssignError
    r = a.can_assign(b, ck)
    return not isinstance(r, CanAssignError)


def _first_obj(bits, usrc):
    i = (bits & -bits).bit_length() - 1
    return usrc[i]


def _pairs(res, tier, lo, hi, only_b=None):
    terms, vals, ext, unsup, objs, ck, ns = _setup(tier)
    usrc = U.universe("quick")
    n = len(terms)
    for ai in range(lo, hi):
        a = terms[ai]
        va = vals[a]
        for bi, b in enumerate(terms):
            if only_b is not None and b != only_b:
                continue
            vb = vals[b]
            res.states += 1
            order = ai * n + bi
            try:
                acc = _accepts(va, vb, ck)
            except Exception as e:
                res.violation({"law": "raises", "exc": type(e).__name__, "A": _skel(a), "B": _skel(b)}, {"A": a, "B": b, "order": order},
                              "can_assign(%s <- %s) raised %r" % (a, b, e))
                continue
            res.transitions += 1
            try:
                with ck.set_exclude_any():
                    acc_x = _accepts(va, vb, ck)
            except Exception as e:
                acc_x = acc
                res.violation({"law": "raises-exclude-any", "exc": type(e).__name__, "A": _skel(a), "B": _skel(b)}, {"A": a, "B": b, "order": order},
                              "can_assign(%s <- %s) under exclude_any raised %r" % (a, b, e))
            res.transitions += 1
            res.validated += 1
            witness = ext[b] & ~ext[a] & ~unsup[a] & ~unsup[b]
            subset = witness == 0
            len_ = _lenient(a, b)
            res.outcomes["accepted=%s/subset=%s%s" % (acc, subset, "/lenient" if (acc and not subset and len_) else "")] += 1
            if acc and not subset and not len_:
                o = _first_obj(witness, usrc)
                res.violation({"law": "soundness", "A": _skel(a), "B": _skel(b)}, {"A": a, "B": b, "order": order},
                              "%s accepts %s, yet %s belongs to %s and not to %s" % (a, b, o, b, a))
            if a == b and not acc:
                res.violation({"law": "reflexivity", "A": _skel(a)}, {"A": a, "B": b, "order": order}, "%s does not accept itself" % a)
            if acc_x and not acc:
                res.violation({"law": "exclude-any-monotone", "A": _skel(a), "B": _skel(b)}, {"A": a, "B": b, "order": order},
                              "%s <- %s is rejected normally but accepted under exclude_any" % (a, b))
        if ai % 50 == 0:
            res.sample({"A": a, "B": terms[(ai * 7) % n], "accepted": _accepts(va, vals[terms[(ai * 7) % n]], ck)})


def _laws(res, tier, lo, hi):
    from pyanalyze.value import NO_RETURN_VALUE, AnySource, AnyValue, MultiValuedValue, TypedValue
    terms, vals, ext, unsup, objs, ck, ns = _setup(tier)
    base = T.BASE
    obj = TypedValue(object)
    anyv = AnyValue(AnySource.explicit)
    n = len(terms)
    for ai in range(lo, hi):
        a = terms[ai]
        va = vals[a]
        order = n * n + ai * 10000
        res.states += 1
        checks = [("never-accepted", _accepts(va, NO_RETURN_VALUE, ck)), ("object-accepts", _accepts(obj, va, ck)),
                  ("any-accepted", _accepts(va, anyv, ck)), ("any-accepts", _accepts(anyv, va, ck))]
        res.transitions += 4
        for name, ok in checks:
            res.validated += 1
            res.outcomes["law:%s=%s" % (name, ok)] += 1
            if not ok:
                res.violation({"law": name, "A": _skel(a)}, {"law": name, "A": a, "order": order}, "law %s fails for %s" % (name, a))
        # exclude-any monotonicity against Any-containing values, both directions
        for t in ANYTERMS:
            vt = vals[t]
            for (x, y, xs, ys) in ((va, vt, a, t), (vt, va, t, a)):
                acc = _accepts(x, y, ck)
                with ck.set_exclude_any():
                    accx = _accepts(x, y, ck)
                res.transitions += 2
                res.validated += 1
                res.outcomes["anyterm:accepted=%s/excl=%s" % (acc, accx)] += 1
                if accx and not acc:
                    res.violation({"law": "exclude-any-monotone", "A": _skel(xs), "B": _skel(ys)}, {"law": "xany", "A": xs, "B": ys, "order": order},
                                  "%s <- %s is rejected normally but accepted under exclude_any" % (xs, ys))
        # union on the right: A <- (B1|B2)  <=>  A <- B1 and A <- B2
        for b1 in base:
            acc1 = _accepts(va, vals[b1], ck)
            for b2 in base:
                acc2 = _accepts(va, vals[b2], ck)
                accu = _accepts(va, MultiValuedValue([vals[b1], vals[b2]]), ck)
                res.transitions += 1
                res.validated += 1
                res.states += 1
                res.outcomes["union-right:%s" % (accu,)] += 1
                if accu != (acc1 and acc2):
                    res.violation({"law": "union-right", "A": _skel(a), "B1": _skel(b1), "B2": _skel(b2)}, {"law": "union-right", "A": a, "B1": b1, "B2": b2, "order": order},
                                  "%s <- (%s | %s) is %s but the members give %s and %s" % (a, b1, b2, accu, acc1, acc2))
                # union on the left: A <- B1  =>  (A | B2) <- B1
                if acc1:
                    accl = _accepts(MultiValuedValue([va, vals[b2]]), vals[b1], ck)
                    res.transitions += 1
                    res.validated += 1
                    if not accl:
                        res.violation({"law": "union-left", "A": _skel(a), "B1": _skel(b1), "B2": _skel(b2)}, {"law": "union-left", "A": a, "B1": b1, "B2": b2, "order": order},
                                      "%s accepts %s but (%s | %s) does not" % (a, b1, a, b2))


def _source(res, tier, lo, hi, only_b=None):
    """second route: the same pairs written as annotations in checked source"""
    from pa.run import check
    from ref.member import Unsupported, member
    from ref.values import value_of
    from pa.run import get_checker
    ck = get_checker()
    ns = U.prelude_ns()
    objs = [eval(x, ns) for x in U.universe("quick")]
    usrc = U.universe("quick")
    terms = _src_terms(tier)

    def ext(t):
        rt = eval(t, ns)
        e = u = 0
        for i, o in enumerate(objs):
            try:
                if member(o, rt):
                    e |= 1 << i
            except Unsupported:
                u |= 1 << i
        return e, u
    exts = {t: ext(t) for t in terms}
    for ai in range(lo, hi):
        a = terms[ai]
        bs = [b for b in terms if only_b is None or b == only_b]
        src = U.PRELUDE + "".join("def f%d(b: %s) -> None:\n    y: %s = b\n" % (k, b, a) for k, b in enumerate(bs))
        first = U.PRELUDE.count("\n") + 2
        fails = check(src)
        res.transitions += 1
        by = {}
        for f in fails:
            by.setdefault(f.get("lineno"), []).append(f["code"].name)
        va = value_of(eval(a, ns))
        for k, b in enumerate(bs):
            res.states += 1
            res.validated += 1
            codes = by.get(first + 2 * k, [])
            acc_src = "incompatible_assignment" not in codes
            acc_api = _accepts(va, value_of(eval(b, ns)), ck)
            order = 3 * 10 ** 9 + ai * len(terms) + k
            case = {"src": [a, b], "order": order}
            res.outcomes["source:accepted=%s/api=%s" % (acc_src, acc_api)] += 1
            if acc_src != acc_api:
                res.violation({"law": "routes-disagree", "A": _skel(a), "B": _skel(b), "source": "accepts" if acc_src else "rejects"}, case,
                              "`def f(b: %s): y: %s = b` is %s in checked source, but Value.can_assign on the same types %s" % (b, a, "accepted" if acc_src else "diagnosed", "accepts" if acc_api else "rejects"))
            witness = exts[b][0] & ~exts[a][0] & ~exts[a][1] & ~exts[b][1]
            if acc_src and witness and not _lenient(a, b):
                res.violation({"law": "soundness", "A": _skel(a), "B": _skel(b), "route": "source"}, case,
                              "`y: %s = b` with b: %s is accepted, yet %s belongs to %s and not to %s" % (a, b, _first_obj(witness, usrc), b, a))


# ---- TypedDict family: keys a, b with every required/readonly/type combination ------------------

def td_family():
    ents = [None]
    for typ in ("int", "str", "bool"):
        for req in (True, False):
            for ro in (False, True):
                ents.append((typ, req, ro))
    bs = [None, ("int", True, False), ("str", False, True)]
    fam = []
    for ea in ents:
        for eb in bs:
            spec = {}
            if ea:
                spec["a"] = ea
            if eb:
                spec["b"] = eb
            fam.append(spec)
    return fam


def _td_objects():
    vals = [None, 1, True, "x"]
    out = []
    for va in vals:
        for vb in vals:
            d = {}
            if va is not None:
                d["a"] = va
            if vb is not None:
                d["b"] = vb
            out.append(d)
    out.append({"c": 1})
    out.append({"a": 1, "c": "x"})
    return out


_PY = {"int": int, "str": str, "bool": bool}


def _td_member(o, spec):
    for k, (typ, req, ro) in spec.items():
        if k in o:
            if not isinstance(o[k], _PY[typ]):
                return False
        elif req:
            return False
    return True     # open TypedDict: extra keys allowed


def _td_str(spec):
    return "TD{" + ", ".join("%s: %s%s%s" % (k, "ReadOnly " if ro else "", "" if req else "NotRequired ", typ) for k, (typ, req, ro) in spec.items()) + "}"


def _typeddict(res, tier, only=None):
    from pyanalyze.value import TypedDictEntry, TypedDictValue, TypedValue
    from pa.run import get_checker
    ck = get_checker()
    fam = td_family()
    objs = _td_objects()
    vals = [TypedDictValue({k: TypedDictEntry(TypedValue(_PY[t]), required=req, readonly=ro) for k, (t, req, ro) in spec.items()}) for spec in fam]
    n = len(fam)
    for i, a in enumerate(fam):
        for j, b in enumerate(fam):
            if only is not None and (i, j) != tuple(only):
                continue
            res.states += 1
            acc = _accepts(vals[i], vals[j], ck)
            res.transitions += 1
            res.validated += 1
            wit = [o for o in objs if _td_member(o, b) and not _td_member(o, a)]
            res.outcomes["td:accepted=%s/subset=%s" % (acc, not wit)] += 1
            order = 10 ** 9 + i * n + j
            if acc and wit:
                flags = lambda s: ",".join("%s:%s%s" % (k, "ro" if ro else "rw", "req" if req else "opt") for k, (t, req, ro) in sorted(s.items()))
                res.violation({"law": "typeddict-soundness", "A": flags(a), "B": flags(b)}, {"td": [i, j], "order": order},
                              "%s accepts %s, yet %r belongs to the latter and not to the former" % (_td_str(a), _td_str(b), wit[0]))
            if i == j and not acc:
                res.violation({"law": "reflexivity", "A": _td_str(a)}, {"td": [i, j], "order": order}, "%s does not accept itself" % _td_str(a))
    res.sample({"A": _td_str(fam[5]), "B": _td_str(fam[9]), "accepted": _accepts(vals[5], vals[9], ck)})


# ---- protocols: structural conformance, independent of query order and repetition ---------------

_PMOD = None


def _protocol(res, tier, order_kind, only=None):
    global _PMOD
    from pyanalyze.analysis_lib import make_module
    from pyanalyze.annotations import type_from_runtime
    from pa.run import make_checker
    from ref import protocols as P
    if _PMOD is None:
        _PMOD = make_module(P.SRC)
    ns = vars(_PMOD)
    pairs = [(p, k) for p in P.PROTOCOLS for k in P.CLASSES]
    if order_kind == 1:
        pairs = pairs[::-1]
    elif order_kind == 2:
        pairs = sorted(pairs, key=lambda x: (x[1], x[0]))
    elif order_kind == 3:
        pairs = pairs[1::2] + pairs[0::2]
    ck = make_checker()      # fresh caches for this order
    pv = {p: type_from_runtime(eval(p, ns)) for p in P.PROTOCOLS}
    kv = {k: type_from_runtime(ns[k]) for k in P.CLASSES}
    first = {}
    for rnd in (0, 1, 2):      # the same checker is asked three times
        for (p, k) in pairs:
            if only is not None and [p, k] != list(only) and rnd == 0 and False:
                continue
            acc = _accepts(pv[p], kv[k], ck)
            res.transitions += 1
            res.validated += 1
            exp = P.conforms(k, p)
            if rnd == 0:
                res.states += 1
                first[(p, k)] = acc
                res.outcomes["protocol:accepted=%s/conforms=%s" % (acc, exp)] += 1
            order = 2 * 10 ** 9 + list(P.PROTOCOLS).index(p.split("[")[0] if p not in P.PROTOCOLS else p) * 100 + list(P.CLASSES).index(k)
            if acc != exp:
                res.violation({"law": "protocol-structural", "P": p, "K": k, "verdict": "accepts" if acc else "rejects", "round": min(rnd, 1)},
                              {"proto": [p, k], "order_kind": order_kind, "order": order},
                              "protocol %s %s class %s (query order %d, round %d) but the declared members %s" % (p, "accepts" if acc else "rejects", k, order_kind, rnd,
                                                                                                      "conform" if exp else "do not conform"))
            elif acc != first[(p, k)]:
                res.violation({"law": "protocol-history", "P": p, "K": k}, {"proto": [p, k], "order_kind": order_kind, "order": order},
                              "%s <- %s answered %s first and %s when asked again on the same checker" % (p, k, first[(p, k)], acc))
    res.sample({"protocol": "PR", "class": "KR2", "accepted": first.get(("PR", "KR2"))})


_GMOD = None


def _generics(res, tier, only=None):
    """user-defined generic classes: type arguments must travel through the declared bases in the declared order"""
    global _GMOD
    from pyanalyze.analysis_lib import make_module
    from pyanalyze.annotations import type_from_runtime
    from pa.run import make_checker
    from ref import generics as G
    if _GMOD is None:
        _GMOD = make_module(G.SRC)
    ns = vars(_GMOD)
    ck = make_checker()
    ts = G.terms()
    vals = {t: type_from_runtime(eval(G.render(t), ns)) for t in ts}
    n = len(ts)
    for i, a in enumerate(ts):
        for j, b in enumerate(ts):
            if only is not None and [i, j] != only:
                continue
            res.states += 1
            res.validated += 1
            acc = _accepts(vals[a], vals[b], ck)
            exp = G.accepts(a, b)
            res.transitions += 1
            res.outcomes["generics:accepted=%s/expected=%s" % (acc, exp)] += 1
            if acc != exp:
                res.violation({"law": "generic-bases", "verdict": "accepts" if acc else "rejects", "A": a[0], "B": b[0]}, {"gen": [i, j], "order": 4 * 10 ** 9 + i * n + j},
                              "%s %s %s, but following the declared bases and variance it %s" % (G.render(a), "accepts" if acc else "rejects", G.render(b), "should" if exp else "should not"))
    res.sample({"A": "Mapping[int, str]", "B": "Flipped[int, str]", "declared": "class Flipped(Mapping[K, V], Generic[V, K])"})


def run_unit(unit):
    kind, tier, lo, hi = unit
    res = UnitResult()
    if kind == "generics":
        _generics(res, tier)
        return res
    if kind == "pairs":
        _pairs(res, tier, lo, hi)
    elif kind == "laws":
        _laws(res, tier, lo, hi)
    elif kind == "typeddict":
        _typeddict(res, tier)
    elif kind == "source":
        _source(res, tier, lo, hi)
    else:
        _protocol(res, tier, lo)
    return res


def replay(case):
    res = UnitResult()
    if "td" in case:
        _typeddict(res, "quick", only=case["td"])
        return list(res.viol.values())
    if "gen" in case:
        _generics(res, "quick", only=case["gen"])
        return list(res.viol.values())
    if "src" in case:
        for tier in ("quick", "thorough"):
            ts = _src_terms(tier)
            if case["src"][0] in ts and case["src"][1] in ts:
                ai = ts.index(case["src"][0])
                _source(res, tier, ai, ai + 1, only_b=case["src"][1])
                break
        return list(res.viol.values())
    if "proto" in case:
        _protocol(res, "quick", case["order_kind"])
        return [v for v in res.viol.values() if v["case"]["proto"] == case["proto"]]
    tier = "thorough"
    terms = _setup(tier)[0]
    if case["A"] not in terms and case["A"] not in ANYTERMS:
        tier = "quick"
        terms = _setup(tier)[0]
    if "law" in case:
        ai = terms.index(case["A"]) if case["A"] in terms else terms.index(case["B"])
        _laws(res, tier, ai, ai + 1)
    else:
        ai = terms.index(case["A"])
        _pairs(res, tier, ai, ai + 1, only_b=case["B"])
    return list(res.viol.values())


META = {
    "text": "All ordered pairs (A, B) of Any-free type terms up to the depth bound (quick 521^2 = 2.7e5, thorough ~1.4e3^2) are passed to the real Value.can_assign "
            "with a real Checker, with and without exclude-Any; soundness is judged by extension subset over the 239-object universe, plus reflexivity, Never/object/Any laws "
            "for every term and the two union laws for every (term, base, base) triple.",
    "note": "Trusted: ref/member.py, ref/values.py (values built with public constructors). Finite universe: counterexamples can be missed, not invented. Named leniencies excluded.",
    "technique": "bounded exhaustive enumeration of type pairs/triples against the real can_assign, oracle = extension subset over a generated object universe + algebraic laws",
}
