"""C03 — assignability of a concrete value equals runtime membership (kind E)."""
from mc.core import UnitResult
from ref import terms as T
from ref import universe as U

ID = "C03"
PARTS = ['api', 'src']      # outcome classes every run must produce (guards against a part of the exploration silently not running)
RULE = ("state = (object o, static type term T); o ranges over the generated universe (scalars, enum members, instances, classes, subclass instances of builtins, "
        "containers of depth <= 2), T over all type terms up to the depth bound; route 1: pyanalyze.runtime.is_assignable(o, T) == member(o, T); "
        "route 2: `x: T = <literal o>` is diagnosed iff not member(o, T)")
ASSUMPTIONS = ["member() in ref/member.py is the structural membership of the typing specification (int->float->complex promotion, bool is int, NewType = runtime identity)",
               "str/bytes belong to Sequence/Iterable[T] nominally; type[float]/type[complex] and iterability of class objects are outside the vocabulary"]
MAXTASKS = 30
DEPTH = {"quick": 2, "thorough": 3}
CHUNK = {"quick": 12, "thorough": 40}


def bounds(tier):
    return {"type_depth": DEPTH[tier], "types": len(T.terms(DEPTH[tier], extra=True)), "objects": len(U.universe(tier))}


def units(tier):
    n = len(T.terms(DEPTH[tier], extra=True))
    c = CHUNK[tier]
    return [(tier, i, min(n, i + c)) for i in range(0, n, c)]


_NS = None


def _ns():
    global _NS
    if _NS is None:
        _NS = U.prelude_ns()
    return _NS


def _tshape(t):
    """Type term with atoms abstracted: the constructor skeleton."""
    import re
    s = re.sub(r'Literal\[[^\]]*\]', "Lit", t)
    s = re.sub(r'"m"', "_", s)
    return s


def _oshape(o):
    if isinstance(o, type):
        return "class:" + o.__name__
    if isinstance(o, (tuple, list, set, frozenset)):
        return type(o).__name__ + "[" + ",".join(sorted({type(x).__name__ for x in o})) + "]" + str(len(o))
    if isinstance(o, dict):
        return "dict[" + ",".join(sorted({type(k).__name__ + ":" + type(v).__name__ for k, v in o.items()})) + "]" + str(len(o))
    return type(o).__name__


def _eqdup(o):
    """does a list hold two members that compare (and hash) equal although they are different values, like (True,) and (1,)?  pyanalyze
    unites the literal members of a list through a set of KnownValues and keeps only the first of them"""
    if isinstance(o, list):
        for i, a in enumerate(o):
            for b in o[i + 1:]:
                try:
                    if a == b and repr(a) != repr(b) and type(a) is type(b):
                        return "1"
                except Exception:
                    pass
    return "0"


def _judge_pairs(res, tier, tsrcs, only_obj=None, base=0):
    from pyanalyze.runtime import is_assignable
    from ref.member import Unsupported, member
    from pa.run import check
    ns = _ns()
    usrc = U.universe(tier)
    if only_obj is not None:
        usrc = [only_obj]
    objs = [(s, eval(s, ns)) for s in usrc]
    for ti, ts in enumerate(tsrcs):
        tobj = eval(ts, ns)
        lines = []
        expect = []
        for oi, (osrc, o) in enumerate(objs):
            try:
                m = member(o, tobj)
            except Unsupported:
                res.extra["skipped_unsupported"] += 1
                continue
            res.states += 1
            order = (base + ti) * 1000 + oi
            try:
                p = is_assignable(o, tobj)
            except Exception as e:
                p = "EXC:" + type(e).__name__
            res.transitions += 1
            res.validated += 1
            res.outcomes["api:member=%s/assignable=%s" % (m, p)] += 1
            if p is not m:
                sig = {"route": "api", "kind": "accepts-nonmember" if p is True else ("rejects-member" if p is False else p), "type": _tshape(ts), "obj": _oshape(o), "eqdup": _eqdup(o)}
                res.violation(sig, {"type": ts, "obj": osrc, "order": order},
                              "is_assignable(%s, %s) = %s but member = %s" % (osrc, ts, p, m))
            lines.append("    x%d: %s = %s" % (oi, ts, osrc))
            expect.append((osrc, o, m, order))
        # route 2: annotated assignment of the literal, one per line
        src = U.PRELUDE + "def run():\n" + "\n".join(lines) + "\n"
        first = U.PRELUDE.count("\n") + 2
        try:
            fails = check(src)
        except Exception as e:
            res.violation({"route": "source", "kind": "check-raised", "exc": type(e).__name__, "type": _tshape(ts)}, {"type": ts, "obj": None, "order": (base + ti) * 1000},
                          "checking assignments to %s raised %r" % (ts, e))
            continue
        res.transitions += 1
        by_line = {}
        for f in fails:
            by_line.setdefault(f.get("lineno"), []).append((f["code"].name, f.get("description", "")))
        for j, (osrc, o, m, order) in enumerate(expect):
            ds = by_line.get(first + j, [])
            codes = {c for c, _ in ds}
            diagnosed = "incompatible_assignment" in codes
            other = codes - {"incompatible_assignment", "missing_generic_parameters"}
            res.validated += 1
            res.outcomes["src:member=%s/diagnosed=%s" % (m, diagnosed)] += 1
            if other:
                res.violation({"route": "source", "kind": "unexpected-code", "codes": ",".join(sorted(other)), "type": _tshape(ts), "obj": _oshape(o)},
                              {"type": ts, "obj": osrc, "order": order}, "x: %s = %s gives %s" % (ts, osrc, ds))
            elif diagnosed is m:
                sig = {"route": "source", "kind": "accepts-nonmember" if m is False else "rejects-member", "type": _tshape(ts), "obj": _oshape(o), "eqdup": _eqdup(o)}
                res.violation(sig, {"type": ts, "obj": osrc, "order": order},
                              "x: %s = %s is %s but member = %s%s" % (ts, osrc, "diagnosed" if diagnosed else "not diagnosed", m,
                                                                     (": " + ds[0][1].split("\n")[0]) if ds else ""))
        if (base + ti) % 37 == 0 and expect:
            res.sample({"type": ts, "object": expect[len(expect) // 2][0], "member": expect[len(expect) // 2][2]})


def run_unit(unit):
    tier, lo, hi = unit
    res = UnitResult()
    _judge_pairs(res, tier, T.terms(DEPTH[tier], extra=True)[lo:hi], base=lo)
    return res


def replay(case):
    res = UnitResult()
    tier = "thorough"
    _judge_pairs(res, tier, [case["type"]], only_obj=case["obj"], base=case.get("order", 0) // 1000)
    out = []
    for v in res.viol.values():
        v["case"]["order"] = case.get("order", 0)
        out.append(v)
    return out


META = {
    "text": "Every pair (object of the generated universe, type term up to the depth bound) is decided by the real runtime.is_assignable and by checking "
            "`x: T = <literal>` with the real visitor, and compared with an independent structural membership model; quick: 239 objects x 521 types (depth 2), "
            "thorough: 477 objects x 3431 types (depth 3).",
    "note": "Trusted: ref/member.py (written from the typing spec), CPython isinstance. Pairs whose membership the spec leaves open are skipped and counted.",
    "technique": "bounded exhaustive enumeration of (object, type) pairs against the real assignability code, oracle = independent structural membership model",
}
