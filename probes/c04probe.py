import sys, time, collections
from memb import *
from pyanalyze.annotations import type_from_runtime
from pyanalyze.checker import Checker
ck=Checker()
Ts=[t for t in depth2() if t not in (tuple,list,dict,type) and 'NoneType]' not in str(t) and str(t)!='type[float]']
ext={}
for T in Ts:
    try: ext[str(T)]=frozenset(i for i,o in enumerate(U) if member(o,T))
    except ValueError: pass
Ts=[T for T in Ts if str(T) in ext]
vals={str(T): type_from_runtime(T) for T in Ts}
t0=time.time(); n=0; bad=collections.defaultdict(list); refl=[]
for Ta in Ts:
    a=vals[str(Ta)]
    if not a.is_assignable(a, ck): refl.append(str(Ta))
    for Tb in Ts:
        b=vals[str(Tb)]; n+=1
        if a.is_assignable(b, ck):
            diff=ext[str(Tb)]-ext[str(Ta)]
            if diff: bad[(str(Ta),str(Tb))]=[U[i] for i in list(diff)[:2]]
print(n,"pairs",time.time()-t0,"s; unsound accepted pairs:",len(bad),"non-reflexive:",refl)
cls=collections.Counter()
import re
def shape(s): return re.sub(r"__main__\.","",s)
for (a,b),w in list(bad.items()):
    cls[(shape(a).split('[')[0], shape(b).split('[')[0])]+=1
for k,c in cls.most_common(30): print(k,c)
for (a,b),w in list(bad.items())[:25]: print("  A=",shape(a)," <- B=",shape(b)," witness",[repr(x)[:20] for x in w])
