from p3 import *
import itertools, collections, re
prims=["is_of_type(x, int)","is_of_type(x, str)","x is None","x == 1","is_of_type(x, Literal[1])","is_provided(y)","is_of_type(x, int, exclude_any=False)"]
conds=list(prims)+[f"not {p}" for p in prims[:5]]
for a,b in itertools.permutations(prims[:5],2):
    conds.append(f"{a} or {b}"); conds.append(f"{a} and {b}"); conds.append(f"not ({a} or {b})")
rets=["list[int]","list[str]","list[bytes]"]
PRE='''from typing import Union, Any, Literal
from pyanalyze.extensions import evaluated, is_provided, is_of_type, show_error, is_keyword, is_positional
'''
membs=["int","str","None","Literal[1]","Literal['a']","bool"]
unions=[f"Union[{a}, {b}]" for a,b in itertools.combinations(membs,2)]+["Union[int, str, None]","Union[Literal[1], Literal['a'], None]"]
argt=membs+unions
def mems(t):
    m=re.match(r"Union\[(.*)\]$",t)
    if not m: return [t]
    # split top-level commas
    parts=[];depth=0;cur=""
    for ch in m.group(1):
        if ch=='[':depth+=1
        if ch==']':depth-=1
        if ch==',' and depth==0: parts.append(cur.strip());cur=""
        else: cur+=ch
    parts.append(cur.strip()); return parts
bodies=[]
for c1 in conds:
    bodies.append(f"    if {c1}:\n        return {rets[0]}\n    else:\n        return {rets[1]}")
    bodies.append(f"    if {c1}:\n        show_error('E1')\n        return {rets[0]}\n    return {rets[1]}")
for c1,c2 in itertools.product(conds[:12],conds[:12]):
    if c1!=c2: bodies.append(f"    if {c1}:\n        return {rets[0]}\n    elif {c2}:\n        show_error('E2')\n        return {rets[1]}\n    else:\n        return {rets[2]}")
print(len(bodies),"bodies")
viol=collections.Counter(); ex={}
import time; t0=time.time(); n=0
for body in bodies:
    lines=[PRE,"@evaluated","def f(x: Union[int, str, None], y: int = 0):",body,"def f(x, y=0): return x",
           "def run("+", ".join(f"a{j}: {t}" for j,t in enumerate(argt))+") -> None:"]
    for j,t in enumerate(argt): lines.append(f"    reveal_type(f(a{j}))")
    code="\n".join(lines)+"\n"
    r=check(code)
    base=code.count("\n")-len(argt)+1
    by=collections.defaultdict(list)
    for e in r: by[e['lineno']].append((e['code'].name,e['description']))
    res={}
    for j,t in enumerate(argt):
        d=by.get(base+j,[])
        rev=[x[1] for x in d if x[0]=='reveal_type']
        errs=sorted(x[1].split(": ")[-1] for x in d if x[0]=='incompatible_call')
        other=[x for x in d if x[0] not in('reveal_type','incompatible_call')]
        revealed=frozenset(rev[0][len("Revealed type is '"):-1].split(" | ")) if rev else None
        res[t]=(revealed,frozenset(errs)); n+=1
        if other: viol['other-diag']+=1; ex.setdefault('other-diag',(body,t,other[:1]))
    for t in unions:
        want_r=frozenset().union(*[res[m][0] for m in mems(t)]); want_e=frozenset().union(*[res[m][1] for m in mems(t)])
        if res[t][0]!=want_r: viol['union-result']+=1; ex.setdefault('union-result',(body,t,sorted(res[t][0]),sorted(want_r)))
        if res[t][1]!=want_e: viol['union-errors']+=1; ex.setdefault('union-errors',(body,t,sorted(res[t][1]),sorted(want_e)))
print(n,"calls",time.time()-t0)
for k,c in viol.items():
    print(k,c); print(ex[k][0]); print(ex[k][1:])
