import itertools, collections, time
from pyanalyze.checker import Checker
from pyanalyze.value import CallableValue, KnownValue, CanAssignError
ck=Checker()
kinds=[('po',0),('po',1),('pk',0),('pk',1),('vp',0),('ko',0),('ko',1),('vk',0)]
order={'po':0,'pk':1,'vp':2,'ko':3,'vk':4}
def shapes(maxn):
    for n in range(maxn+1):
        for combo in itertools.product(kinds, repeat=n):
            ks=[order[k] for k,_ in combo]
            if ks!=sorted(ks): continue
            if sum(k=='vp' for k,_ in combo)>1 or sum(k=='vk' for k,_ in combo)>1: continue
            sd=False; ok=True
            for k,d in combo:
                if k in('po','pk'):
                    if d: sd=True
                    elif sd: ok=False
            if ok: yield combo
def src(combo, names):
    parts=[]; seen_slash=False; star=False
    po=[i for i,(k,_) in enumerate(combo) if k=='po']
    for i,(k,d) in enumerate(combo):
        n=names[i]
        if k=='po': parts.append(n+("=0" if d else ""));
        if po and i==po[-1]: parts.append("/")
        if k=='pk': parts.append(n+("=0" if d else ""))
        if k=='vp': parts.append("*"+n); star=True
        if k=='ko':
            if not star: parts.append("*"); star=True
            parts.append(n+("=0" if d else ""))
        if k=='vk': parts.append("**"+n)
    return "def f("+", ".join(parts)+"): pass"
NAMES="abc"
sigs=[]
for combo in shapes(2):
    for names in itertools.permutations("abx", len(combo)):
        s=src(combo,names); ns={}; exec(s,ns); sigs.append((s,ns['f']))
print(len(sigs),"signatures")
calls=[]
for npos in range(3):
    for kws in itertools.chain.from_iterable(itertools.combinations("abx",k) for k in range(3)):
        calls.append((tuple(range(npos)), {k:0 for k in kws}))
def binds(f,c):
    try: f(*c[0],**c[1]); return True
    except TypeError: return False
table={s:[binds(f,c) for c in calls] for s,f in sigs}
t0=time.time(); n=0; bad=collections.Counter(); ex={}
for (se,fe),(sa,fa) in itertools.product(sigs,sigs):
    n+=1
    r=KnownValue(fe).can_assign(KnownValue(fa), ck)
    if not isinstance(r,CanAssignError):
        for i,c in enumerate(calls):
            if table[se][i] and not table[sa][i]:
                key=(se.replace("a","N").replace("b","N").replace("x","N"), sa.replace("a","N").replace("b","N").replace("x","N"))
                bad[key]+=1; ex.setdefault(key,(se,sa,c)); break
print(n,"pairs",time.time()-t0,"s; unsound accepted pair classes:",len(bad), "pairs:", sum(bad.values()))
for k,c in bad.most_common(12): print(c, ex[k])
