from p3 import *
from memb import U as U0, member, A,B,C,E,IE
from inval import in_value
import ast, typing, itertools, collections, re, enum
from pyanalyze.stacked_scopes import VisitorState
class Rec(NameCheckVisitor):
    def visit(self, node):
        ret = super().visit(node)
        if self.state is VisitorState.check_names and isinstance(node, ast.expr):
            node.__dict__.setdefault("_inf", []).append(ret)
        return ret
    def composite_from_node(self, node):
        c = super().composite_from_node(node)
        if self.state is VisitorState.check_names and isinstance(node, ast.expr):
            node.__dict__.setdefault("_inf", []).append(c.value)
        return c
PRE='''
import enum, typing
from typing import *
class A: pass
class B(A): pass
class C: pass
class D(A):
    def __bool__(self) -> bool: return False
class E(enum.Enum):
    X=1; Y=2
class IE(enum.IntEnum):
    P=1
def use(x: object) -> None: pass
'''
Vs=["int","str","bool","float","None","object","A","B","E","IE","int | None","int | str","str | None","float | None","bool | None","A | None","A | C","Literal[1, 2]","Literal['a', 'b']","Literal[1, 'a', None]","E | None","tuple[int, str]","tuple[int, ...]","tuple[int] | tuple[str, int]","list[int]","list[int] | None","dict[str, int]","int | list[int]","type[A]","type[int] | type[str]","bytes | str", "complex", "float | str", "Sequence[int]", "tuple[int, ...] | None"]
conds=["isinstance(x, int)","isinstance(x, float)","isinstance(x, str)","isinstance(x, bool)","isinstance(x, A)","isinstance(x, B)","isinstance(x, (int, str))","isinstance(x, tuple)","isinstance(x, list)","isinstance(x, E)",
 "x is None","x is not None","x is True","x is E.X","x == 1","x != 1","x == 'a'","x == E.X","x != E.X","x == None","x in (1, 2)","x not in (1, 2)","x in ('a',)","x in (E.X,)","x in (None, 1)",
 "x","not x","bool(x)","len(x) == 1","len(x) == 2","len(x) > 1","len(x) >= 1","len(x) != 0", "issubclass(x, B)", "issubclass(x, int)", "isinstance(x, (list, tuple))", "x == True", "x == ()", "x is False", "x == 0"]
lines=[PRE]; cases=[]
for i,(V,c) in enumerate(itertools.product(Vs,conds)):
    lines.append(f"def f{i}(x: {V}) -> None:\n    if {c}:\n        use(x)\n    else:\n        use(x)")
    cases.append((V,c))
code="\n".join(lines)+"\n"
import time; t0=time.time()
tree=ast.parse(code); mod=make_module(code)
with ClassAttributeChecker(enabled=True, options=CK.options) as ac:
    v=Rec(mod.__name__, code, tree, module=mod, attribute_checker=ac, checker=CK, annotate=True)
    with contextlib.redirect_stderr(io.StringIO()):
        res=v.check()
print(len(cases),"cases checked in",time.time()-t0)
ns=mod.__dict__
Uu=U0+[ns['D']()]
# map prelude classes: objects from memb use memb.A etc; rebuild universe in module ns for nominal classes
def conv(o):
    if isinstance(o, (A,)) and type(o).__name__ in ns: return ns[type(o).__name__]()
    if isinstance(o, C): return ns['C']()
    if isinstance(o, enum.Enum): return getattr(ns[type(o).__name__], o.name)
    if isinstance(o,type) and o.__name__ in ('A','B','C'): return ns[o.__name__]
    return o
Uu=[conv(o) for o in Uu]
funcs={n.name:n for n in ast.walk(tree) if isinstance(n,ast.FunctionDef) and n.name.startswith('f')}
errs=collections.defaultdict(list)
for e in res: errs[e['lineno']].append(e['code'].name)
viol=collections.Counter(); ex={}
for i,(V,c) in enumerate(cases):
    fn=funcs[f"f{i}"]
    T=eval(V,dict(ns))
    ifn=fn.body[0]
    pos=ifn.body[0].value.args[0]; neg=ifn.orelse[0].value.args[0]
    npos=getattr(pos,'_inf',[None])[-1]; nneg=getattr(neg,'_inf',[None])[-1]
    cond=compile(c,"<c>","eval")
    for o in Uu:
        try:
            if not member(o,T): continue
        except ValueError: continue
        try: r=bool(eval(cond,dict(ns),{'x':o}))
        except Exception: continue
        # skip cross-type equality
        nar = npos if r else nneg
        if nar is None: continue
        try: ok=in_value(o,nar)
        except Exception as ex_: ok=True
        if not ok:
            key=(c, V, r)
            if ('==' in c or '!=' in c or ' in ' in c):
                lits=[1,2,'a',True,0,None,()] 
                if any((o==l) and type(o) is not type(l) for l in lits): continue
            viol[(c,r)]+=1; ex.setdefault((c,r),(V,repr(o)[:30],re.sub(r"<test input \w+>\.","",str(nar))))
print("violation classes (cond, branch): count, example")
for k,n in sorted(viol.items(), key=lambda kv:-kv[1]): print(k,n,ex[k])
print("internal errors:", sum(1 for e in res if e['code'].name=='internal_error'))
