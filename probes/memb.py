"""Throw-away probe of membership oracle + C03/C04 disagreement classes."""
import enum, typing, collections.abc, itertools
from typing import *
class A: pass
class B(A): pass
class C: pass
class E(enum.Enum):
    X=1; Y=2
class IE(enum.IntEnum):
    P=1
NT = NewType("NT", int)
class TD(TypedDict):
    a: int
    b: NotRequired[str]
core=[None, True, 1, 1.5, "a", b"a"]
U=[None, True, False, 0, 1, 2, -1, 1.5, 0.0, 1j, "", "a", "b", b"", b"a", E.X, E.Y, IE.P, A(), B(), C(), int, str, bool, A, B, C]
for n in range(0,3):
    for t in itertools.product(core, repeat=n):
        U.append(tuple(t)); U.append(list(t))
        try: U.append(set(t)); U.append(frozenset(t))
        except TypeError: pass
for k,v in itertools.product(["a","b",1], core):
    U.append({k:v})
U.append({}); U.append({"a":1,"b":"x"}); U.append({"a":1,"b":2})
U += [(1,"a",1.5), (1,2,3), ("a","b","c"), [[1]], [(1,"a")], ([1],), {"a":[1]}]
# type terms as runtime typing objects; member() over typing objects
def member(o, T):
    if T is Any or T is object: return True
    if T is None or T is type(None): return o is None
    org=get_origin(T); args=get_args(T)
    if org is Union or (hasattr(__import__('types'),'UnionType') and isinstance(T, __import__('types').UnionType)):
        return any(member(o,a) for a in args)
    if org is Literal:
        return any(type(o) is type(a) and o==a for a in args)
    if getattr(T,'__supertype__',None) is not None: return member(o, T.__supertype__)
    if typing.is_typeddict(T):
        if not isinstance(o, dict): return False
        hints=get_type_hints(T, include_extras=False)
        for k in T.__required_keys__:
            if k not in o: return False
        for k,v in o.items():
            if k not in hints: return False
            if not member(v, hints[k]): return False
        return True
    if org is type:
        return isinstance(o,type) and (args[0] is Any or issubclass(o,args[0]))
    if org is Annotated: return member(o,args[0])
    if org is None:
        if T is float: return isinstance(o,(int,float))
        if T is complex: return isinstance(o,(int,float,complex))
        if isinstance(T,type): return isinstance(o,T)
        raise ValueError(T)
    if org is tuple:
        if not isinstance(o,tuple): return False
        if len(args)==2 and args[1] is Ellipsis: return all(member(x,args[0]) for x in o)
        if args==((),) or not args: return len(o)==0 if args else True
        return len(o)==len(args) and all(member(x,a) for x,a in zip(o,args))
    if org in (list,set,frozenset):
        return isinstance(o,org) and all(member(x,args[0]) for x in o)
    if org is dict:
        return isinstance(o,dict) and all(member(k,args[0]) and member(v,args[1]) for k,v in o.items())
    if org in (collections.abc.Sequence, collections.abc.Iterable, collections.abc.Collection, collections.abc.Container):
        return isinstance(o,org) and all(member(x,args[0]) for x in (o if not isinstance(o,dict) else o.keys()))
    if org is collections.abc.Mapping:
        return isinstance(o,collections.abc.Mapping) and all(member(k,args[0]) and member(v,args[1]) for k,v in o.items())
    raise ValueError(T)
base=[int,str,bool,float,complex,bytes,type(None),object,A,B,C,E,IE,NT,TD,Literal[1],Literal["a"],Literal[True],Literal[E.X],tuple,list,dict,type]
def depth2():
    out=list(base)
    small=[int,str,float,bool,type(None),A,Literal[1]]
    for a in small:
        out += [list[a], set[a], frozenset[a], tuple[a, ...], tuple[a], Sequence[a], Iterable[a], Optional[a], type[a] if isinstance(a,type) else list[a]]
        for b in small:
            out += [dict[a,b], tuple[a,b], Union[a,b], Mapping[a,b]]
    seen=[];
    for t in out:
        if t not in seen: seen.append(t)
    return seen
if __name__=="__main__":
    import sys, time
    sys.path.insert(0,'/tmp/probe')
    from pyanalyze.runtime import is_assignable
    Ts=depth2(); print(len(U),"objects",len(Ts),"types")
    t0=time.time(); dis=collections.defaultdict(list); n=0
    for T in Ts:
        for o in U:
            try: m=member(o,T)
            except ValueError: continue
            try: p=is_assignable(o,T)
            except Exception as ex: p=("EXC",type(ex).__name__)
            n+=1
            if p!=m: dis[(str(T))].append((o,m,p))
    print(n,"pairs",time.time()-t0,"s; disagreeing types",len(dis))
    for T,l in list(dis.items())[:40]:
        print(T, len(l), [(repr(o)[:25],m,p) for o,m,p in l[:4]])
