from p3 import *
from inval import in_value
import ast, itertools, collections, copy, re, enum
from pyanalyze.stacked_scopes import VisitorState
from pyanalyze.value import NO_RETURN_VALUE
class Rec(NameCheckVisitor):
    def visit(self, node):
        ret = super().visit(node)
        if self.state is VisitorState.check_names and isinstance(node, ast.expr):
            node.__dict__.setdefault("_inf", []).append(ret)
        return ret
    def composite_from_node(self, node):
        c = super().composite_from_node(node)
        if self.state is VisitorState.check_names and isinstance(node, ast.expr):
            node.__dict__.setdefault("_inf", []).append(c.value)
        return c
PRE='''from typing import *
def boom() -> None: ...
def ident(a: T) -> T: return a
''' .replace("def ident","T = TypeVar('T')\ndef ident")
ptypes={"int":[0,1,True],"float":[1.5,1,True],"str":["","a"],"int | None":[None,0,2],"int | str":[1,"a"],"tuple[int, str]":[(1,"a")],"tuple[int, ...]":[(),(1,),(1,2)],
 "tuple[int, *tuple[str, ...], float, bytes, bool]":[(1,1.5,b"",True),(1,"a","b",2.5,b"x",False)],"list[int]":[[],[1,2]],"dict[str, int]":[{},{"a":1}],"Literal[1, 2]":[1,2],"bool":[True,False]}
exprs=["x","x[0]","x[-1]","x[-2]","x[1:]","len(x)","x + 1","(x, 1)","[x]","x if x else None","x and 1","x or 'z'","not x","x == 1","ident(x)","{'k': x}['k']","x is None","isinstance(x, int)","(x, x)[1]","[x][0]"]
stmts=["v = {e}","v = {e}\n    w = v","if {e}:\n        v = x\n    else:\n        v = None","for v in ({e},):\n        pass","try:\n        v = {e}\n    except Exception:\n        v = 0","v, *w = ({e}, 1)",
 "if isinstance(x, float):\n        v = x\n    else:\n        v = {e}","while True:\n        v = {e}\n        break","match x:\n        case int():\n            v = {e}\n        case _:\n            v = x"]
progs=[]
for pt,e,st in itertools.product(ptypes,exprs,stmts):
    body=st.format(e=e)
    progs.append((pt, f"def run(x: {pt}) -> object:\n    {body}\n    return v\n"))
print(len(progs),"programs")
class Instr(ast.NodeTransformer):
    def __init__(self): self.n=0; self.map={}
    def generic_visit(self,node):
        node=super().generic_visit(node)
        if isinstance(node,(ast.Name,ast.Subscript,ast.Call,ast.BinOp,ast.IfExp)) and isinstance(getattr(node,'ctx',ast.Load()),ast.Load):
            if isinstance(node,ast.Call) and isinstance(node.func,ast.Name) and node.func.id=='__rec': return node
            key=(node.lineno,node.col_offset,node.end_lineno,node.end_col_offset,type(node).__name__)
            return ast.copy_location(ast.Call(func=ast.Name(id='__rec',ctx=ast.Load()),args=[ast.Constant(key),node],keywords=[]),node)
        return node
viol=collections.Counter(); ex={}
import time; t0=time.time(); nobs=0; nrun=0
for pt,src in progs:
    code=PRE+src
    try: tree=ast.parse(code); mod=make_module(code)
    except Exception: continue
    with ClassAttributeChecker(enabled=True, options=CK.options) as ac:
        v=Rec(mod.__name__, code, tree, module=mod, attribute_checker=ac, checker=CK, annotate=True)
        with contextlib.redirect_stderr(io.StringIO()): res=v.check()
    sys.modules.pop(mod.__name__,None)
    inf={}
    for n in ast.walk(tree):
        if hasattr(n,'_inf'):
            inf[(n.lineno,n.col_offset,n.end_lineno,n.end_col_offset,type(n).__name__)]=n._inf
    t2=Instr().visit(ast.parse(code)); ast.fix_missing_locations(t2)
    obs=[]
    def rec(key,val): obs.append((key,val)); return val
    ns={'__rec':rec}
    # do not instrument function-definition-level names in PRE: fine
    try: exec(compile(t2,"<i>","exec"),ns)
    except Exception as exn: continue
    for arg in ptypes[pt]:
        del obs[:]
        try: ns['run'](copy.deepcopy(arg))
        except Exception: pass
        nrun+=1
        for key,val in obs:
            vals=inf.get(key)
            if not vals:
                k=('executed-but-not-visited',key[4]); 
                # node not visited in check phase => pyanalyze thought unreachable? record
                viol[k]+=1; ex.setdefault(k,(src,arg,key)); continue
            nobs+=1
            try: ok=any(in_value(val,V) for V in vals)
            except Exception as e2: ok=True
            if not ok:
                frag=ast.get_source_segment(code, ast.parse(code).body[0]) if False else ""
                k=('unsound', key[4], str(vals[-1])[:40], type(val).__name__); viol[k]+=1; ex.setdefault(k,(src,arg,key,val))
print(nrun,"runs",nobs,"observations",time.time()-t0,"s")
for k,c in viol.most_common(25):
    print(c,k); print("   ",ex[k][0].replace("\n","\n    "), ex[k][1:])
