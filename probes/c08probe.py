from p3 import *
import itertools, collections, re, ast
from pyanalyze.stacked_scopes import VisitorState
vocab=["int","str","bytes","None","bool","object","float"]
ext={"int":{1,True.__class__ and 'T',}, }
# extension sets over tiny universe for subset semantics
Uo=[1,True,"a",b"b",None,1.5,object()]
def mem(o,t):
    return {"int":isinstance(o,int),"str":isinstance(o,str),"bytes":isinstance(o,bytes),"None":o is None,"bool":isinstance(o,bool),"object":True,"float":isinstance(o,(int,float))}[t]
def sub(b,a): return all(mem(o,a) for o in Uo if mem(o,b))
rets=["list[int]","list[str]","list[bytes]","list[None]"]
PRE="from typing import overload, Any, Union\n"
sets=list(itertools.permutations(vocab,2))+list(itertools.permutations(vocab[:5],3))
argtypes=vocab+[f"Union[{a}, {b}]" for a,b in itertools.combinations(vocab[:5],2)]+["Any"]
def members(t):
    m=re.match(r"Union\[(.*), (.*)\]",t)
    return [m.group(1),m.group(2)] if m else [t]
viol=collections.Counter(); ex={}
import time; t0=time.time(); n=0
for ov in sets[:120]:
    lines=[PRE]
    for i,p in enumerate(ov):
        lines.append(f"@overload\ndef f(x: {p}) -> {rets[i]}: ...")
    lines.append("def f(x: object) -> object: return x")
    lines.append("def run("+", ".join(f"a{j}: {t}" for j,t in enumerate(argtypes))+") -> None:")
    for j,t in enumerate(argtypes): lines.append(f"    reveal_type(f(a{j}))")
    code="\n".join(lines)+"\n"
    r=check(code)
    base=code.count("\n")-len(argtypes)+1
    by=collections.defaultdict(list)
    for e in r: by[e['lineno']].append((e['code'].name,e['description']))
    for j,t in enumerate(argtypes):
        n+=1
        ln=base+j
        d=by.get(ln,[])
        rev=[x[1] for x in d if x[0]=='reveal_type']
        err=[x for x in d if x[0]!='reveal_type']
        revealed=rev[0][len("Revealed type is '"):-1] if rev else None
        ms=members(t)
        if t=="Any":
            matching=[i for i,p in enumerate(ov)]
            # Any never selects one overload when several match
            if revealed in [rets[i] for i in range(len(ov))] : 
                viol['any-selects-one']+=1; ex.setdefault('any-selects-one',(ov,t,revealed))
            continue
        def first(m):
            for i,p in enumerate(ov):
                if sub(m,p): return i
            return None
        firsts=[first(m) for m in ms]
        expect_err=any(f is None for f in firsts)
        if expect_err != bool(err):
            k=('verdict', 'union' if len(ms)>1 else 'single'); viol[k]+=1; ex.setdefault(k,(ov,t,revealed,err[:1]))
        elif not expect_err:
            want={rets[f] for f in firsts}
            got=set(revealed.split(" | ")) if revealed else set()
            if len(ms)==1 and got!=want: viol['single-type']+=1; ex.setdefault('single-type',(ov,t,revealed,want))
            if len(ms)>1 and not want<=got and revealed!='Any[multiple_overload_matches]': viol['union-type']+=1; ex.setdefault('union-type',(ov,t,revealed,want))
print(n,"calls",time.time()-t0)
for k,c in viol.items(): print(k,c,ex[k])
# vacuity check on last set
print(ov, [ (t, [x[1][-40:] for x in by.get(base+j,[])]) for j,t in enumerate(argtypes)][:8])
