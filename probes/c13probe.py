from p3 import *
import ast, typing, collections.abc
from pyanalyze.annotations import type_from_runtime
from pyanalyze.stacked_scopes import VisitorState
class Rec(NameCheckVisitor):
    def visit(self, node):
        ret = super().visit(node)
        if self.state is VisitorState.check_names and isinstance(node, ast.expr):
            node.__dict__.setdefault("_inf", []).append(ret)
        return ret
    def composite_from_node(self, node):
        c = super().composite_from_node(node)
        if self.state is VisitorState.check_names and isinstance(node, ast.expr):
            node.__dict__.setdefault("_inf", []).append(c.value)
        return c
PRE='''
import typing, collections.abc
from typing import *
from typing_extensions import NotRequired, ReadOnly
class A: pass
NT = NewType("NT", int)
class TD(TypedDict):
    a: int
    b: NotRequired[str]
T = TypeVar("T")
TB = TypeVar("TB", bound=int)
'''
forms=["int","None","Optional[int]","int | None","Union[int, str]","list[int]","List[int]","dict[str, int]","tuple[int, str]","tuple[int, ...]","tuple[()]","Tuple[int, ...]","tuple[int, *tuple[str, ...]]",
 "Literal[1, 'a']","Literal[None]","type[int]","Type[A]","type[Any]","Callable[[int], str]","Callable[..., int]","collections.abc.Callable[[int], str]","Annotated[int, 'x']","NT","TD","T","TB","list[T]","Sequence[int]","collections.abc.Sequence[int]","Mapping[str, int]","Iterable[int]","Any","object","type","list","tuple","Final[int]","ClassVar[int]","'A'","list['A']","LiteralString","Never","float","complex", "type[None]", "Optional[Callable[[int], None]]", "dict[str, list[int]]", "tuple[int, Unpack[tuple[str, ...]]]", "Literal[True]", "Literal[b'a']", "frozenset[int]", "set[int]", "collections.abc.Mapping[str, int]", "typing.Optional[int]"]
lines=[PRE]
for i,f in enumerate(forms):
    lines.append(f"def f{i}(x: {f}) -> None:\n    print(x)")
    q=f.replace('"','\\"')
    lines.append(f"def g{i}(x: \"{q}\") -> None:\n    print(x)") if not f.startswith("'") else lines.append(f"def g{i}(x: {f}) -> None:\n    print(x)")
code="\n".join(lines)+"\n"
tree=ast.parse(code); mod=make_module(code)
with ClassAttributeChecker(enabled=True, options=CK.options) as ac:
    v=Rec(mod.__name__, code, tree, module=mod, attribute_checker=ac, checker=CK, annotate=True)
    with contextlib.redirect_stderr(io.StringIO()):
        res=v.check()
vals={}
for n in ast.walk(tree):
    if isinstance(n, ast.FunctionDef) and n.name[0] in 'fg':
        call=n.body[0].value
        vals[n.name]=call.args[0]._inf[-1] if hasattr(call.args[0],'_inf') else None
ns=mod.__dict__
import re
def norm(v): return re.sub(r"<test input \w+>","M",str(v)) if v is not None else None
for i,f in enumerate(forms):
    a=vals.get(f"f{i}"); b=vals.get(f"g{i}")
    try: c=type_from_runtime(eval(f, dict(ns)), globals=ns)
    except Exception as ex: c=f"EXC {ex!r}"[:60]
    same = (a==b) and (a==c)
    if not same: print(f"{f:45} src={norm(a)} | str={norm(b)} | rt={norm(c)}")
print("errors:", [(e['lineno'], e['code'].name) for e in res][:20])
