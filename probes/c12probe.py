from p3 import *
import itertools, collections, re, ast
atoms=["1","'a'","x","undefined_name","[1]","None","int","(1, 'a')"]
un=["-{a}","not {a}","~{a}","+{a}","*{a}","await {a}","yield {a}","lambda: {a}","{a}.attr","{a}[0]","{a}()","{a}[1:2]","f'{{{a}}}'","f'{{{a}!r:>{{{a}}}}}'","[*{a}]","{{**{a}}}","({a} for _ in {a})","[{a} for y in {a} if y]","{{{a}: {a} for y in {a}}}","(y := {a})","{a} if {a} else {a}","[{a}, *{a}]","{{{a}}}","{{{a}: {a}}}","{a}[{a}]","{a}({a}, *{a}, k={a}, **{a})"]
bi=["{a} + {b}","{a} % {b}","{a} @ {b}","{a} ** {b}","{a} < {b}","{a} in {b}","{a} is {b}","{a} and {b}","{a} or {b}","{a} == {b} != {a}","{a} | {b}","{a}[{b}]","{a}({b})","{a}.{b}" ]
exprs=set(atoms)
for t in un:
    for a in atoms: exprs.add(t.format(a=a))
for t in bi[:-1]:
    for a,b in itertools.product(atoms,atoms): exprs.add(t.format(a=a,b=b))
exprs=sorted(exprs)
ctxs=["    v = {e}","    return {e}","    v: {e} = 1","    v: int = {e}","    v: '{q}' = 1","    print({e})","    for v in {e}:\n        pass","    with {e} as v:\n        pass","    assert {e}, {e}","    raise {e}","    del {e}","    v += {e}",
"    match {e}:\n        case 1: pass\n        case [a, *b]: pass\n        case {{'k': c}}: pass\n        case int(): pass\n        case _: pass",
"    def inner(p: {e} = {e}) -> {e}:\n        return p","    @{e}\n    def inner2() -> None: pass","    class K({e}): pass","    try:\n        pass\n    except {e}:\n        pass","    while {e}:\n        break","    if {e}:\n        pass\n    elif {e}:\n        pass","    global g\n    g = {e}"]
progs=[]
for e in exprs:
    for c in ctxs:
        q=e.replace("'","\\'")
        body=c.format(e=e,q=q)
        is_async = "await" in e
        gen = "yield" in e
        code=f"{'async ' if is_async else ''}def run(x: int) -> object:\n{body}\n"
        try: compile(code,"<p>","exec")
        except SyntaxError: continue
        progs.append(code)
print(len(exprs),"exprs",len(progs),"programs")
import time; t0=time.time()
cls=collections.Counter(); ex={}; nerr=0
import signal
for code in progs:
    try:
        r=check(code)
    except Exception as exn:
        k=("EXC",type(exn).__name__, str(exn)[:50]); cls[k]+=1; ex.setdefault(k,code); continue
    nl=code.count("\n")
    for e in r:
        if e['code'].name=='internal_error':
            last=e['description'].strip().split("\n")[-1][:90]
            k=("internal",re.sub(r"0x[0-9a-f]+","0x",last)); cls[k]+=1; ex.setdefault(k,code)
        ln=e.get('lineno')
        if ln is None or not (1<=ln<=nl): k=("badline",e['code'].name); cls[k]+=1; ex.setdefault(k,code)
print(time.time()-t0,"s")
for k,c in cls.most_common(30): print(c,k); print("   ",ex[k].replace("\n","\n    ")[:200])
