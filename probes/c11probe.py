from p3 import *
import itertools, collections, re
ck=mk_checker({ErrorCode.unused_ignore: True, ErrorCode.bare_ignore: False})
IG="# static analysis: ignore"
bases=[
"x: int = 'a'\ndef f() -> None:\n    print(undef1)\n    y: int = 'b'; print(undef2)\n    print(\n        undef3,\n        1\n    )\nz: str = 1\n",
"import os\ndef g() -> None:\n    os.nope\n    print(undef1, os.nope2)\n",
]
def D(code):
    return sorted((e['lineno'], e['code'].name) for e in check(code, ck))
viol=collections.Counter(); ex={}
n=0
for base in bases:
    lines=base.split("\n")[:-1]
    d0=D(base)
    assert d0, base
    codes=sorted({c for _,c in d0})|{"duplicate_dict_key"} if False else sorted({c for _,c in d0})+["duplicate_dict_key"]
    for ln in range(1,len(lines)+1):
        for form in ("trail","own"):
            for tag in [None]+codes:
                com=IG+(f"[{tag}]" if tag else "")
                new=list(lines)
                if form=="trail":
                    new[ln-1]=new[ln-1]+"  "+com; target=ln; shift=lambda l:l
                else:
                    indent=re.match(r"\s*",lines[ln-1]).group(0)
                    new.insert(ln-1, indent+com); target=ln+1; shift=(lambda l,ln=ln: l+1 if l>=ln else l)
                code="\n".join(new)+"\n"
                try: compile(code,"<x>","exec")
                except SyntaxError: continue
                got=D(code); n+=1
                # model
                exp=[]; suppressed=0
                filelevel = (form=="own" and ln==1 and tag is None)
                for (l,c) in d0:
                    l2=shift(l)
                    hit = filelevel or (l2==target and (tag is None or tag==c))
                    if hit: suppressed+=1
                    else: exp.append((l2,c))
                comline = ln
                if suppressed==0: exp.append((comline,'unused_ignore'))
                exp=sorted(exp)
                if got!=exp:
                    k=(form, "bare" if tag is None else ("match" if tag in {c for _,c in d0} else "other"), "line1" if ln==1 else ("last" if ln==len(lines) else "mid"))
                    viol[k]+=1; ex.setdefault(k,(code,got,exp))
print(n,"placements")
for k,c in viol.items():
    print(k,c); print(ex[k][0]); print(" got",ex[k][1]); print(" exp",ex[k][2])
