import time, ast, sys, io, contextlib
from pyanalyze.name_check_visitor import NameCheckVisitor, ClassAttributeChecker
from pyanalyze.checker import Checker
from pyanalyze.error_code import ErrorCode, DISABLED_IN_TESTS
from pyanalyze.analysis_lib import make_module
from pyanalyze.options import Options, ConfigOption
from pyanalyze.extensions import patch_typing_overload
patch_typing_overload()
def mk_checker(settings=None):
    s = {c: c not in DISABLED_IN_TESTS for c in ErrorCode}
    if settings: s.update(settings)
    inst = [ConfigOption.registry[c.name](v, from_command_line=True) for c,v in s.items()]
    return Checker(raw_options=Options.from_option_list(inst))
CK = mk_checker()
def check(code, checker=CK):
    tree = ast.parse(code)
    mod = make_module(code)
    with ClassAttributeChecker(enabled=True, options=checker.options) as ac:
        v = NameCheckVisitor(mod.__name__, code, tree, module=mod, attribute_checker=ac, checker=checker)
        with contextlib.redirect_stderr(io.StringIO()):
            res = v.check()
    sys.modules.pop(mod.__name__, None)
    return res
code = open('/dev/stdin').read() if len(sys.argv)>1 and sys.argv[1]=='-' else '''
from typing import Union
def f(x: Union[int, str], y: float) -> None:
    if isinstance(x, int):
        reveal_type(x)
    else:
        reveal_type(x)
'''
if __name__ == '__main__':
    r = check(code)
    t0=time.time()
    for i in range(100): r = check(code)
    print("100 checks", time.time()-t0)
    for e in r: print(e.get('lineno'), e['code'].name, e['description'][:300])
