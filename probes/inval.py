from pyanalyze.value import *
import collections.abc, enum
def in_value(o, v):
    if isinstance(v, AnnotatedValue): return in_value(o, v.value)
    if isinstance(v, AnyValue): return True
    if isinstance(v, MultiValuedValue): return any(in_value(o,x) for x in v.vals)
    if isinstance(v, KnownValue):
        try: return type(o) is type(v.val) and (o is v.val or o == v.val)
        except Exception: return o is v.val
    if isinstance(v, TypeVarValue): return in_value(o, v.get_fallback_value())
    if isinstance(v, SubclassValue):
        if not isinstance(o,type): return False
        if isinstance(v.typ, TypedValue) and isinstance(v.typ.typ,type): return issubclass(o, v.typ.typ)
        return True
    if isinstance(v, CallableValue): return callable(o)
    if isinstance(v, TypedDictValue):
        if not isinstance(o,dict): return False
        for k,e in v.items.items():
            if k in o:
                if not in_value(o[k], e.typ): return False
            elif e.required: return False
        for k in o:
            if k not in v.items:
                if v.extra_keys is None: return True  # open TypedDict: structural extra keys tolerated
                if not in_value(o[k], v.extra_keys): return False
        return True
    if isinstance(v, DictIncompleteValue):
        if not isinstance(o, v.typ if isinstance(v.typ,type) else dict): return False
        for k,val in o.items():
            if not any(in_value(k,p.key) and in_value(val,p.value) for p in v.kv_pairs): return False
        for p in v.kv_pairs:
            if p.is_required and not p.is_many and isinstance(p.key,KnownValue):
                if p.key.val not in o: return False
        return True
    if isinstance(v, SequenceValue):
        if not isinstance(o, v.typ): return False
        items=list(o)
        if v.typ in (set,frozenset):
            return all(any(in_value(x,m) for _,m in v.members) for x in items)
        # regex-like match
        mem=v.members
        def m(i,j):
            if j==len(mem): return i==len(items)
            many,val=mem[j]
            if many:
                if m(i,j+1): return True
                return i<len(items) and in_value(items[i],val) and m(i+1,j)
            return i<len(items) and in_value(items[i],val) and m(i+1,j+1)
        return m(0,0)
    if isinstance(v, GenericValue):
        t=v.typ
        if not isinstance(t,type): return True
        if t is tuple: return isinstance(o,tuple) and all(in_value(x,v.args[0]) for x in o)
        if not typed_instance(o,t): return False
        if issubclass(t,(collections.abc.Mapping,)) and len(v.args)==2:
            return all(in_value(k,v.args[0]) and in_value(x,v.args[1]) for k,x in o.items())
        if isinstance(o,(str,bytes)): 
            return True
        if isinstance(o, collections.abc.Iterable) and len(v.args)==1 and not isinstance(o,collections.abc.Iterator):
            return all(in_value(x,v.args[0]) for x in o)
        return True
    if isinstance(v, TypedValue):
        t=v.typ
        if not isinstance(t,type): return True
        return typed_instance(o,t)
    raise ValueError(type(v))
def typed_instance(o,t):
    if t is float: return isinstance(o,(int,float))
    if t is complex: return isinstance(o,(int,float,complex))
    try: return isinstance(o,t)
    except TypeError: return True
