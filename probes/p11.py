from p3 import *
import itertools, operator
U=["None","True","0","1","-1","1.5","1j","''","'a'","b'a'","()","(1,)","(1, 'a')","E.X"]
OPS=["+","-","*","/","//","%","**","<<",">>","|","^","&","@"]
pre="import enum\nclass E(enum.Enum):\n    X = 1\n    Y = 2\n"
lines=[pre+"def run() -> None:"]
cases=[]
for a,b in itertools.product(U,U):
    for op in OPS:
        if op=="%" and a in ("''","'a'","b'a'"): continue
        if op in ("**","<<") : 
            pass
        cases.append((a,op,b)); lines.append(f"    ({a}) {op} ({b})")
code="\n".join(lines)+"\n"
import time; t0=time.time()
r=check(code); print(len(cases), "cases", time.time()-t0, "s")
by={}
for e in r: by.setdefault(e['lineno'],[]).append(e)
ns={}; exec(pre,ns)
base=pre.count("\n")+1
dis=[]
for i,(a,op,b) in enumerate(cases):
    ln=base+1+i
    try: eval(f"({a}) {op} ({b})", ns); rt=None
    except (TypeError,) as ex: rt='TypeError'
    except Exception as ex: rt=type(ex).__name__
    diag=[e['code'].name for e in by.get(ln,[])]
    if (rt=='TypeError') != bool(diag): dis.append((a,op,b,rt,diag))
print("disagreements", len(dis))
for d in dis[:25]: print("  ", d)
