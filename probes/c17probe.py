from p3 import *
import itertools, collections, re
flags=["","#","0","-"," ","+","-0","+ "]
widths=["","3","*"]; precs=["",".2",".*"]; lens=["","l"]
convs=list("diouxXeEfFgGcrsa%b")
keys=["","(a)"]
args=["1","1.5","'x'","b'y'","None","True","300","(1,)","(1, 2)","('x',)","(3, 1)","(3, 2, 1)","{'a': 1}","{'a': 'x'}","{}","[1]","()"]
specs=[]
for k,f,w,p,l,c in itertools.product(keys,flags,widths,precs,lens,convs):
    if k and ('*' in w or '*' in p): pass
    specs.append(f"%{k}{f}{w}{p}{l}{c}")
print(len(specs),"specs")
import random
cases=[]
for sp in specs:
    for a in args:
        cases.append((repr("v="+sp), a))
# str templates only for probe; limit
cases=cases[::7]
lines=["def run() -> None:"]+[f"    ({t} % {a})" for t,a in cases]
code="\n".join(lines)+"\n"
import time; t0=time.time(); r=check(code); print(len(cases),"cases",time.time()-t0,"s")
by=collections.defaultdict(list)
for e in r: by[e['lineno']].append((e['code'].name, e['description']))
cls=collections.Counter(); ex={}
for i,(t,a) in enumerate(cases):
    ln=i+2
    try: eval(f"{t} % {a}"); raised=None
    except Exception as exn: raised=type(exn).__name__
    d=[x for x in by.get(ln,[]) if x[0] in('bad_format_string','incompatible_call','incompatible_argument','unsupported_operation')]
    if raised and not d:
        k=("MISSED",raised, re.sub(r"[#0\- +]|3|\.2","",t)[:12]); cls[k]+=1; ex.setdefault(k,(t,a))
    if not raised and d:
        msg=re.sub(r"Literal\[.*?\]|'.*?'|\d+","_",d[0][1])[:70]
        k=("EXTRA",msg); cls[k]+=1; ex.setdefault(k,(t,a))
for k,c in sorted(cls.items(), key=lambda kv:-kv[1])[:40]: print(c,k,ex[k])
