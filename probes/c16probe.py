from p3 import *
import ast
ck=mk_checker()
def step(code, add_ignores=True):
    tree = ast.parse(code); mod = make_module(code)
    with ClassAttributeChecker(enabled=True, options=ck.options) as ac:
        v = NameCheckVisitor(mod.__name__, code, tree, module=mod, attribute_checker=ac, checker=ck, add_ignores=add_ignores)
        with contextlib.redirect_stderr(io.StringIO()):
            res, new = v.check_for_test(apply_changes=True)
    sys.modules.pop(mod.__name__,None)
    return [(e['lineno'],e['code'].name) for e in res], new
for code in ["def f() -> None:\n    x: int = 'a'; print(undef)\n",
             "x: int = 'a'\ny: str = 1\n",
             "def f() -> None:\n    print(\n        undef1,\n        undef2)\n"]:
    seen=[]; cur=code
    for i in range(8):
        d,new=step(cur)
        print(i,d); 
        if new==cur: print("  fixpoint"); break
        if new in seen: print("  CYCLE"); print(new); break
        seen.append(cur); cur=new
    print(cur); print("-----")
