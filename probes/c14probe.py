import itertools, collections, typing
from pyanalyze.value import *
from pyanalyze.checker import Checker
from pyanalyze.extensions import CustomCheck
ck=Checker()
T=typing.TypeVar("T"); Uv=typing.TypeVar("U")
K=KnownValue; TV=TypedValue
pool=[K(1),K(True),K("a"),K(None),K([]),K({}),K((1,2)),TV(int),TV(str),TV(float),TV(bool),GenericValue(list,[TV(int)]),GenericValue(list,[TV(str)]),
 SequenceValue(tuple,[(False,TV(int)),(False,TV(str))]),SequenceValue(list,[(True,TV(int))]),DictIncompleteValue(dict,[KVPair(K("a"),TV(int))]),
 TypedDictValue({"a":TypedDictEntry(TV(int))}),SubclassValue(TV(int)),TypeVarValue(T),TypeVarValue(Uv,bound=TV(int)),NO_RETURN_VALUE,AnyValue(AnySource.explicit),AnyValue(AnySource.unreachable),AnyValue(AnySource.error),
 AnnotatedValue(TV(int),[K("meta")]),MultiValuedValue([TV(int),TV(str)]),MultiValuedValue([TV(str),TV(int)]),MultiValuedValue([K(1),K(None)]),AnnotatedValue(MultiValuedValue([TV(int),K(None)]),[K("m")]),GenericValue(list,[MultiValuedValue([TV(int),TV(str)])])]
def eq(a,b):
    try: return a==b
    except Exception as e: return ("EXC",e)
viol=collections.Counter(); ex={}
def rec(name,*w):
    viol[name]+=1; ex.setdefault(name,[str(x) for x in w])
n=0
for a in pool:
    if eq(unite_values(a,a),a) is not True: rec("idem",a,unite_values(a,a))
    if eq(unite_values(a,NO_RETURN_VALUE),a) is not True: rec("never-id",a,unite_values(a,NO_RETURN_VALUE))
    for b in pool:
        ab=unite_values(a,b); ba=unite_values(b,a)
        if eq(ab,ba) is not True: rec("comm",a,b,ab,ba)
        if eq(a,b) is True:
            try:
                if hash(a)!=hash(b): rec("eq-hash",a,b)
            except TypeError: rec("unhashable",a)
        if isinstance(ab,MultiValuedValue) and any(isinstance(v,MultiValuedValue) for v in ab.vals): rec("nested",a,b,ab)
        for x in (a,b):
            if not isinstance(ab.can_assign(x,ck),dict): rec("accept-operand",a,b,ab)
        for c in pool:
            n+=1
            l=unite_values(unite_values(a,b),c); r=unite_values(a,unite_values(b,c))
            if eq(l,r) is not True: rec("assoc",a,b,c,l,r)
            elif hash(l)!=hash(r): rec("assoc-hash",a,b,c,l,r)
print(n,"triples"); 
for k,c in viol.items(): print(k,c,ex[k][:5])
