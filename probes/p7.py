from p3 import *
import time
def show(code, ck=CK):
    r = check(code, ck)
    for e in r: print("   ", e.get('lineno'), e.get('col_offset'), e['code'].name, repr(e['description'][:200]))
    if not r: print("    <none>")
print("C09")
show('''
def cond(): return 1
def run() -> None:
    while cond():
        try:
            v = 1
            if cond():
                continue
            v = 2
        finally:
            print(v)
    else:
        v = 3
    reveal_type(v)
''')
print("C05 timing")
lines = ["def f(a, b=1, /, c=2, *args, d, e=3, **kw): pass", "def run() -> None:"]
import itertools
n=0
for npos in range(5):
    for kws in itertools.chain.from_iterable(itertools.combinations("abcdez", k) for k in range(4)):
        lines.append("    f(%s)" % ", ".join([str(i) for i in range(npos)] + [f"{k}=0" for k in kws])); n+=1
code="\n".join(lines)+"\n"
t0=time.time(); r=check(code); dt=time.time()-t0
print(n, "calls", dt, "s; errors", len(r))
# CPython oracle
ns={}
exec(lines[0], ns)
import inspect
sig=inspect.signature(ns['f'])
bad=set()
i=0
for npos in range(5):
    for kws in itertools.chain.from_iterable(itertools.combinations("abcdez", k) for k in range(4)):
        try: sig.bind(*range(npos), **{k:0 for k in kws})
        except TypeError: bad.add(i+3)
        i+=1
got={e['lineno'] for e in r if e['code'].name=='incompatible_call'}
print("oracle bad", len(bad), "pyanalyze", len(got), "diff", sorted(bad^got)[:10])
for l in sorted(bad^got)[:5]: print(lines[l-1])
print("CPython rejects, pyanalyze accepts:")
for l in sorted(bad-got)[:12]: print("   ", lines[l-1])
print("pyanalyze rejects, CPython accepts:")
for l in sorted(got-bad)[:12]: print("   ", lines[l-1], [e['description'][-80:] for e in r if e['lineno']==l])
