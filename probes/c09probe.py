from p3 import *
import ast, itertools, collections, re
from pyanalyze.stacked_scopes import VisitorState
from pyanalyze.value import *
class Rec(NameCheckVisitor):
    def composite_from_node(self, node):
        c = super().composite_from_node(node)
        if self.state is VisitorState.check_names and isinstance(node, ast.Name):
            node.__dict__.setdefault("_inf", []).append(c.value)
        return c
# skeleton grammar -> python text; statements as tuples
def gen_block(depth, size, in_loop):
    """yield lists of statements with total node count == size"""
    if size==0:
        yield []; return
    for first_size in range(1,size+1):
        for st in gen_stmt(depth, first_size, in_loop):
            for rest in gen_block(depth, size-first_size, in_loop):
                yield [st]+rest
def gen_stmt(depth, size, in_loop):
    if size==1:
        yield ("asg",); yield ("use",); yield ("ret",)
        if in_loop: yield ("brk",); yield ("cont",)
        return
    if depth==0: return
    inner=size-1
    for a in range(1,inner+1):
        for b1 in gen_block(depth-1,a,in_loop):
            for b2 in gen_block(depth-1,inner-a,in_loop):
                yield ("if",b1,b2)
                yield ("try",b1,b2)
                if inner-a<=1: yield ("tryf",b1,b2)
    for b in gen_block(depth-1,inner,True):
        yield ("while",b,[])
    for a in range(1,inner):
        for b in gen_block(depth-1,a,True):
            for e in gen_block(depth-1,inner-a,in_loop):
                yield ("while",b,e)
def render(block, ind, ctr):
    out=[]
    pad="    "*ind
    for st in block:
        k=st[0]
        if k=="asg": ctr[0]+=1; out.append(f"{pad}v = {ctr[0]}")
        elif k=="use": ctr[1]+=1; out.append(f"{pad}use(v, {ctr[1]})")
        elif k=="ret": out.append(f"{pad}return")
        elif k=="brk": out.append(f"{pad}break")
        elif k=="cont": out.append(f"{pad}continue")
        elif k=="if":
            out.append(f"{pad}if c():"); out+=render(st[1],ind+1,ctr)
            if st[2]: out.append(f"{pad}else:"); out+=render(st[2],ind+1,ctr)
        elif k=="try":
            out.append(f"{pad}try:"); out+=render(st[1],ind+1,ctr)
            out.append(f"{pad}except Exception:"); out+=render(st[2],ind+1,ctr) if st[2] else [f"{pad}    pass"]
        elif k=="tryf":
            out.append(f"{pad}try:"); out+=render(st[1],ind+1,ctr)
            out.append(f"{pad}finally:"); out+=render(st[2],ind+1,ctr) if st[2] else [f"{pad}    pass"]
        elif k=="while":
            out.append(f"{pad}while c():"); out+=render(st[1],ind+1,ctr)
            if st[2]: out.append(f"{pad}else:"); out+=render(st[2],ind+1,ctr)
    return out
PRE="def c() -> bool: ...\ndef use(x: object, k: int) -> None: ...\n"
progs=[]
for size in (2,3,4):
    for blk in gen_block(2,size,False):
        flat=str(blk)
        if "'use'" not in flat or "'asg'" not in flat: continue
        body=render(blk,1,[0,0]); progs.append("def run() -> None:\n"+"\n".join(body)+"\n    use(v, 99)\n")
print(len(progs),"skeletons")
# concrete execution oracle (strict): env answers enumerated
class Stop(Exception): pass
class Boom(Exception): pass
def strict(src, maxdec=7):
    obs=collections.defaultdict(set)
    code=compile(src,"<s>","exec")
    def run(script):
        pos=[0]; over=[False]
        def answer():
            if pos[0]<len(script): a=script[pos[0]]
            else: a=None; over[0]=True; raise Stop()
            pos[0]+=1; return a
        def c():
            a=answer()
            if a==2: raise Boom("c")
            return bool(a)
        def use(x,k):
            obs[k].add(x)
            a=answer()
            if a==2: raise Boom("u")
        class V: pass
        ns={'c':c}
        # emulate unbound: wrap use(v,k) -> evaluated by python: NameError/UnboundLocalError if unbound
        exec(code,ns)
        # patch use to catch unbound: rewrite src so that use(v,k) is try: tmp=v except UnboundLocalError
        ns['use']=use
        try: ns['run']()
        except Stop: return True
        except Boom: return False
        except UnboundLocalError: return False
        return False
    # BFS over scripts
    frontier=[()]
    while frontier:
        s=frontier.pop()
        if len(s)>maxdec: continue
        need_more=run(s)
        if need_more:
            for a in (0,1,2): frontier.append(s+(a,))
    return obs
def strict_src(src):
    # make unbound observable: replace use(v, k) with use(_get(lambda: v), k)
    return re.sub(r"use\(v, (\d+)\)", r"use(_g(lambda: v), \1)", src)
UNB="<unbound>"
def strict_obs(src):
    s="def _g(f):\n    try: return f()\n    except NameError: return '<unbound>'\n"+strict_src(src)
    return strict(s)
import time; t0=time.time()
bad=collections.Counter(); ex={}
N=0
for src in progs[:3000]:
    code=PRE+src
    tree=ast.parse(code); mod=make_module(code)
    with ClassAttributeChecker(enabled=True, options=CK.options) as ac:
        v=Rec(mod.__name__, code, tree, module=mod, attribute_checker=ac, checker=CK, annotate=True)
        with contextlib.redirect_stderr(io.StringIO()):
            res=v.check()
    sys.modules.pop(mod.__name__,None)
    rep={}; 
    for n in ast.walk(tree):
        if isinstance(n,ast.Call) and isinstance(n.func,ast.Name) and n.func.id=='use':
            k=n.args[1].value; val=getattr(n.args[0],'_inf',[None])[-1]
            if val is None: rep[k]=None; continue
            s=set()
            for sv in flatten_values(val, unwrap_annotated=True):
                if isinstance(sv,KnownValue): s.add(sv.val)
                elif isinstance(sv,AnyValue): s.add(UNB)
            rep[k]=s
    und={e['lineno'] for e in res if e['code'].name in('undefined_name','possibly_undefined_name')}
    obs=strict_obs(src)
    N+=1
    for k,vals in obs.items():
        r=rep.get(k)
        if r is None:
            # unreachable per pyanalyze but executed
            bad['use-unvisited']+=1; ex.setdefault('use-unvisited',src); continue
        miss={x for x in vals if x!=UNB}-r
        if miss: bad['strict-not-reported']+=1; ex.setdefault('strict-not-reported',(src,k,miss,r))
        if UNB in vals and UNB not in r: bad['unbound-not-reported']+=1; ex.setdefault('unbound-not-reported',(src,k,r))
print(N,"checked",time.time()-t0,"s")
for k,c in bad.items():
    print(k,c); e=ex[k]; print(e[0] if isinstance(e,tuple) else e); print(e[1:] if isinstance(e,tuple) else "")
