from p3 import *
import tempfile, os, pathlib, textwrap
from pyanalyze.options import Options, ConfigOption, InvalidConfigOption
from pyanalyze.signature import MaximumPositionalArgs
from pyanalyze.name_check_visitor import ExtraBuiltins
d=pathlib.Path(tempfile.mkdtemp(dir='/dev/shm'))
(d/'base.toml').write_text(textwrap.dedent('''
[tool.pyanalyze]
maximum_positional_args = 7
extra_builtins = ["base"]
undefined_name = false
[[tool.pyanalyze.overrides]]
module = "a.b"
maximum_positional_args = 8
'''))
(d/'main.toml').write_text(textwrap.dedent('''
[tool.pyanalyze]
extend_config = "base.toml"
extra_builtins = ["main"]
[[tool.pyanalyze.overrides]]
module = "a"
maximum_positional_args = 5
extra_builtins = ["main_a"]
'''))
o=Options.from_option_list([ExtraBuiltins(["cmd"], from_command_line=True)], config_file_path=d/'main.toml')
for mp in [(),("a",),("a","b"),("a","b","c"),("x",)]:
    om=o.for_module(mp)
    print(mp, om.get_value_for(MaximumPositionalArgs), om.get_value_for(ExtraBuiltins), om.is_error_code_enabled(ErrorCode.undefined_name))
for bad in ['disable_all = "false"', 'maximum_positional_args = true', 'maximum_positional_args = "x"', 'nonsense = 1', 'undefined_name = 1']:
    (d/'bad.toml').write_text("[tool.pyanalyze]\n"+bad+"\n")
    try:
        o=Options.from_option_list([], config_file_path=d/'bad.toml')
        print(bad, "-> accepted", o.get_value_for(MaximumPositionalArgs), o.is_error_code_enabled(ErrorCode.undefined_name))
    except InvalidConfigOption as e:
        print(bad, "-> rejected:", e)
o=Options.from_option_list([], config_file_path=d/'main.toml')
for name, insts in o.options.items():
    if name in ('maximum_positional_args','extra_builtins'):
        for i in insts: print(name, i.value, i.applicable_to, i.from_command_line, i.priority, i.sort_key())
