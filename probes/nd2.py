"""Probe 2: actually permute iteration at chosen site/policy and see diagnostics change."""
import ndprobe, collections
POLICY = {}   # site -> policy name
LOG = []
class NDSet(set):
    __slots__=("_order",)
    def __iter__(self): return iter(self._order)
class NDFrozen(frozenset):
    def __iter__(self): return iter(self._order)
def permute(lst, pol):
    if pol=="rev": return lst[::-1]
    if pol.startswith("rot"): k=int(pol[3:])%max(len(lst),1); return lst[k:]+lst[:k]
    return lst
def nd(obj, site):
    t=type(obj)
    if t is set or t is frozenset:
        pol=POLICY.get(site)
        ndprobe.COUNTS[site]+=1
        if pol is None or len(obj)<2: return obj
        order=permute(list(set.__iter__(obj) if t is set else frozenset.__iter__(obj)), pol)
        if t is set:
            s=NDSet(obj); s._order=order; return s
        else:
            s=NDFrozen(obj); object.__setattr__(s,"_order",order) if False else None
            s.__dict__["_order"]=order
            return s
    return obj
def ndpop(obj, site):
    if type(obj) is set and POLICY.get(("pop",site)) and len(obj)>1:
        elems=list(obj); x=permute(elems, POLICY[("pop",site)])[0]; obj.remove(x); return x
    return obj.pop()
import builtins
builtins.ndITER_=nd; builtins.ndPOP_=ndpop
from p3 import *
code='''
from typing import Union
def f(x: Union[int, str, None], y: float) -> None:
    if isinstance(x, int) or x is None:
        reveal_type(x)
    else:
        reveal_type(x)
    f(1, 2, c=3, d=4, e=5)
    print("%(a)s %(b)s %(c)s" % {})
'''
def render(r):
    import re
    return sorted((e['code'].name, e.get('lineno'), re.sub(r"<test input \w+>","<mod>",e['description'])) for e in r)
base=render(check(code))
sites=[s for s in ndprobe.COUNTS]
print(len(sites),"sites")
import time; t0=time.time(); n=0
for s in sites:
    for pol in ("rev","rot1","rot2"):
        POLICY.clear(); POLICY[s]=pol
        try:
            out=render(check(code)); n+=1
        except Exception as ex:
            print("EXC", s, pol, repr(ex)[:200]); continue
        if out!=base:
            for a,b in zip(base,out):
                if a!=b: print("DIFF at", s, pol, "\n   ", a[2][-90:], "\n   ", b[2][-90:])
print(n,"runs",time.time()-t0)
