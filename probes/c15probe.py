import itertools, collections, typing
from pyanalyze.value import *
from pyanalyze.typevar import resolve_bounds_map
from pyanalyze.checker import Checker
ck=Checker()
T=typing.TypeVar("T")
K=KnownValue; TV=TypedValue
pool=[K(1),K("a"),TV(int),TV(str),TV(float),TV(bool),TV(object),TV(int)|TV(str),TV(int)|K(None),K(None),GenericValue(list,[TV(int)]),NO_RETURN_VALUE]
def acc(a,b): return a.is_assignable(b,ck)
bounds=[LowerBound(T,v) for v in pool]+[UpperBound(T,v) for v in pool]
viol=collections.Counter(); ex={}
n=0
for k in (1,2,3):
    for combo in itertools.combinations(bounds,k):
        verdicts=set()
        for perm in itertools.permutations(combo):
            n+=1
            tv,errs=resolve_bounds_map({T:list(perm)},ck)
            ok=not errs
            verdicts.add(ok)
            if ok:
                S=tv[T]
                for b in perm:
                    if isinstance(b,LowerBound) and not acc(S,b.value): viol['lower-unsat']+=1; ex.setdefault('lower-unsat',(list(map(str,perm)),str(S)))
                    if isinstance(b,UpperBound) and not acc(b.value,S): viol['upper-unsat']+=1; ex.setdefault('upper-unsat',(list(map(str,perm)),str(S)))
        if len(verdicts)>1: viol['order-dependent']+=1; ex.setdefault('order-dependent',list(map(str,combo)))
print(n,"sequences")
for k,c in viol.items(): print(k,c,ex[k])
