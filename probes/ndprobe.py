"""Feasibility probe: AST-rewrite pyanalyze at import so that every iteration over a builtin set/frozenset is a choice point."""
import ast, sys, importlib.machinery, importlib.util, os, collections
REPO="/repo"
SITES={}
COUNTS=collections.Counter()
SIZES=collections.defaultdict(collections.Counter)
class NDSet(set):
    pass
def _nd(obj, site):
    t=type(obj)
    if t is set or t is frozenset or t is type({}.keys()) :
        if t is not type({}.keys()):
            COUNTS[site]+=1
            SIZES[site][len(obj)]+=1
    return obj
def _ndpop(obj, site):
    if type(obj) is set:
        COUNTS[('pop',site)]+=1
        SIZES[('pop',site)][len(obj)]+=1
    return obj.pop()
import builtins
builtins.ndITER_=_nd
builtins.ndPOP_=_ndpop
ITER_FUNCS={'list','tuple','sorted','min','max','next','iter','enumerate','zip','map','filter','any','all','sum','join','chain','from_iterable','fromkeys','unite_values','reversed','uniq_chain','extend','update'}
class T(ast.NodeTransformer):
    def __init__(self, mod): self.mod=mod; self.n=0
    def wrap(self, e):
        self.n+=1
        site=f"{self.mod}:{getattr(e,'lineno',0)}:{getattr(e,'col_offset',0)}"
        return ast.copy_location(ast.Call(func=ast.Name(id='ndITER_',ctx=ast.Load()),args=[e,ast.Constant(site)],keywords=[]), e)
    def visit_For(self,node):
        self.generic_visit(node); node.iter=self.wrap(node.iter); return node
    def visit_comprehension(self,node):
        self.generic_visit(node); node.iter=self.wrap(node.iter); return node
    def visit_Starred(self,node):
        self.generic_visit(node)
        if isinstance(node.ctx, ast.Load): node.value=self.wrap(node.value)
        return node
    def visit_Call(self,node):
        self.generic_visit(node)
        f=node.func
        name = f.id if isinstance(f,ast.Name) else f.attr if isinstance(f,ast.Attribute) else None
        if name=='pop' and isinstance(f,ast.Attribute) and not node.args and not node.keywords:
            site=f"{self.mod}:{node.lineno}:{node.col_offset}"
            return ast.copy_location(ast.Call(func=ast.Name(id='ndPOP_',ctx=ast.Load()),args=[f.value,ast.Constant(site)],keywords=[]),node)
        if name in ITER_FUNCS:
            node.args=[a if isinstance(a,ast.Starred) else self.wrap(a) for a in node.args]
        return node
class Loader(importlib.machinery.SourceFileLoader):
    def source_to_code(self, data, path, *, _optimize=-1):
        tree=ast.parse(data, path)
        mod=os.path.basename(path)
        tree=T(mod).visit(tree); ast.fix_missing_locations(tree)
        return compile(tree, path, 'exec', dont_inherit=True, optimize=_optimize)
class Finder:
    @staticmethod
    def find_spec(name, path=None, target=None):
        if name=='pyanalyze' or name.startswith('pyanalyze.'):
            parts=name.split('.')
            base=os.path.join(REPO,*parts)
            if os.path.isdir(base): 
                fn=os.path.join(base,'__init__.py')
                return importlib.util.spec_from_file_location(name, fn, loader=Loader(name,fn), submodule_search_locations=[base])
            fn=base+'.py'
            if os.path.exists(fn):
                return importlib.util.spec_from_file_location(name, fn, loader=Loader(name,fn))
        return None
sys.meta_path.insert(0,Finder)
sys.dont_write_bytecode=True
