#!/usr/bin/env python3
"""usage: tools/triage.py <file> field1,field2,... [N]   -- groups TRIAGE blocks of a VERIF_TRIAGE=1 run"""
import sys, json, re, collections
txt = open(sys.argv[1]).read()
fields = sys.argv[2].split(",")
N = int(sys.argv[3]) if len(sys.argv) > 3 else 12
blocks = re.split(r"\n(?=TRIAGE)", txt)
c = collections.Counter(); ex = {}
for b in blocks:
    if not b.startswith("TRIAGE"): continue
    m = re.match(r"TRIAGE\s+(\d+) (\{.*\})", b)
    if not m: continue
    try: d = json.loads(m.group(2))
    except Exception: continue
    k = tuple(str(d.get(f)) for f in fields)
    c[k] += int(m.group(1)); ex.setdefault(k, b.split("\n", 1)[1] if "\n" in b else "")
print(len(c), "groups")
W = int(sys.argv[4]) if len(sys.argv) > 4 else 160
for k, n in sorted(c.items(), key=lambda x: -x[1])[:N]:
    print(n, k, "|", " ".join(ex[k].split())[:W])
