#!/bin/bash
# usage: tools/run_all.sh <tier> [ids...]  -- runs checks sequentially, prints one line per check
tier=$1; shift
ids="$@"; [ -z "$ids" ] && ids=$(ls props/c[0-9][0-9].py | sed 's/.*c\([0-9]*\).py/C\1/')
for id in $ids; do
  s=$(date +%s); out=$(timeout 3600 ./check $id --tier $tier 2>&1); rc=$?; e=$(date +%s)
  echo "$id $tier rc=$rc $((e-s))s $(echo "$out" | grep -E "^$id " | cut -c1-160)"
  echo "$out" | grep -E "^(VIOLATION|BROKEN)" | head -5 | cut -c1-200
done
