#!/bin/bash
# usage: tools/try_mutant.sh <patch.diff> <ID> [tier]   -- applies the patch to /repo, runs the check, reverts
set -u
cd /repo || exit 9
if [ -n "$(git status --porcelain)" ]; then echo "/repo not clean"; exit 9; fi
git apply "$1" || { echo "patch does not apply"; exit 9; }
cd /verif
VERIF_MAX_REPORT=${VERIF_MAX_REPORT:-2} ./check "$2" --tier "${3:-quick}" > /dev/shm/mut_out.txt 2>&1
rc=$?
git -C /repo checkout -- .
grep -E "^(VIOLATION|KNOWN-FINDING|BROKEN|C[0-9]+ )|what:" /dev/shm/mut_out.txt | cut -c1-400 | head -${LINES_SHOWN:-14}
echo "exit=$rc"
git checkout -q -- evidence 2>/dev/null
exit $rc
