#!/bin/bash
# re-runs every seeded change against the check that detects it (check and tier from meta.json) and reports whether it is still detected.
# patch_head.diff (the same change ported to the current HEAD after later fix commits rewrote the patched lines) is preferred over patch.diff.
cd /verif
for d in seeded/*/; do
  n=$(basename $d)
  id=$(python3 -c "import json;m=json.load(open('$d/meta.json'));print((m.get('detected_by') or {}).get('check') or m['property'])")
  tier=$(python3 -c "import json;print((json.load(open('$d/meta.json')).get('detected_by') or {}).get('tier','quick'))")
  if python3 -c "import json,sys;sys.exit(0 if json.load(open('$d/meta.json')).get('neutralised_by_fix') else 1)"; then echo "$n neutralised by a later fix commit (see meta.json)"; continue; fi
  p=/verif/$d/patch.diff; [ -f /verif/$d/patch_head.diff ] && p=/verif/$d/patch_head.diff
  out=$(tools/try_mutant.sh $p $id $tier 2>&1 | tail -1)
  echo "$n $id $tier $out"
done
