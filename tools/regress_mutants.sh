#!/bin/bash
# re-runs every seeded change against its check (tier from meta.json) and reports whether it is still detected
cd /verif
for d in seeded/*/; do
  n=$(basename $d)
  id=$(python3 -c "import json;print(json.load(open('$d/meta.json'))['property'])")
  tier=$(python3 -c "import json;print((json.load(open('$d/meta.json')).get('detected_by') or {}).get('tier','quick'))")
  out=$(tools/try_mutant.sh /verif/$d/patch.diff $id $tier 2>&1 | tail -1)
  echo "$n $id $tier $out"
done
