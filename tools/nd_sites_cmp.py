import sys, json
sys.path.insert(0,'/verif')
from mc import ndimport
ndimport.install()
import props.c10 as c
S=ndimport.SCHED
reached={}
for pi,src in enumerate(c.corpus('thorough')):
    S.reset_run()
    c._fresh_check(src)
    for s,n in S.counts.items():
        k = s if isinstance(s,str) else ":".join(s)
        reached.setdefault(k,set()).add(pi)
ref=json.load(open('/dev/shm/ndsites_ref.json'))
print('corpus reaches',len(reached),'sites; reference',len(ref))
print('in reference but not reached:')
for k in sorted(ref):
    if k not in reached: print('  ',k,ref[k])
print('reached but not in reference:',[k for k in reached if k not in ref])
