#!/usr/bin/env python3
"""usage: tools/mark_detected.py <seeded-dir-name> <check id> <tier> <yes|no> [note]"""
import json, sys
name, cid, tier, verdict = sys.argv[1:5]
note = sys.argv[5] if len(sys.argv) > 5 else ""
p = "/verif/seeded/%s/meta.json" % name
d = json.load(open(p))
d["detected_by"] = {"check": cid, "tier": tier, "detected": verdict == "yes", "note": note}
json.dump(d, open(p, "w"), indent=1)
