#!/bin/bash
# usage: tools/confirm_mutant.sh <ID> <mN>   -- confirms a sub-agent's mutant in its scratch worktree and files it under seeded/
ID=$1; M=$2; R=${ROUND:-}; WT=/tmp/wt$R-$ID; SRC=/tmp/mut$R-$ID; TAG=${R:+r$R}
cd $WT || exit 9
git checkout -q -- . ; git clean -fdq
/venv/bin/python $SRC/${M}_demo.py > /dev/shm/demo0.txt 2>&1; d0=$?
git apply $SRC/$M.diff || { echo "patch does not apply"; exit 9; }
/venv/bin/python $SRC/${M}_demo.py > /dev/shm/demo1.txt 2>&1; d1=$?
summary=$(/venv/bin/python -m pytest -q -p no:cacheprovider -n ${NJ:-10} --timeout=900 2>&1 | grep -E "passed|failed|error" | tail -1)
git checkout -q -- . ; git clean -fdq
echo "$ID/$M demo_clean=$d0 demo_mutant=$d1 tests: $summary"
if [ $d0 -eq 0 ] && [ $d1 -ne 0 ] && echo "$summary" | grep -q "1076 passed" && ! echo "$summary" | grep -q failed; then
  D=/verif/seeded/$ID-$TAG$M; mkdir -p $D
  cp $SRC/$M.diff $D/patch.diff; cp $SRC/${M}_demo.py $D/demo.py; cp $SRC/$M.md $D/notes.md
  /venv/bin/python - "$ID" "$TAG$M" "$summary" "$d0" "$d1" <<'PY'
import json,sys
ID,M,summary,d0,d1=sys.argv[1:6]
notes=open('/verif/seeded/%s-%s/notes.md'%(ID,M)).read()
meta={"property":ID,"mutant":M,"origin":"independent sub-agent given only the property text and a scratch worktree",
 "needs_to_manifest":"see notes.md","confirmed":{"worktree":"/tmp/wt-%s (removed afterwards)"%ID,
 "demo_exit_on_clean_tree":int(d0),"demo_exit_with_patch":int(d1),"test_suite_with_patch":summary,
 "commands":["/venv/bin/python demo.py (clean)","git apply patch.diff","/venv/bin/python demo.py (patched)","/venv/bin/python -m pytest -q -p no:cacheprovider -n 10 --timeout=900"]},
 "detected_by":None}
json.dump(meta,open('/verif/seeded/%s-%s/meta.json'%(ID,M),'w'),indent=1)
PY
  echo "  kept as $D"
else
  echo "  NOT kept"
fi
