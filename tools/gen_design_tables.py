#!/usr/bin/env python3
"""Regenerates the generated tables of DESIGN.md section 10 (between <!-- BEGIN:x --> / <!-- END:x --> markers) from
known_findings.json and seeded/*/meta.json."""
import glob, json, os, re
ROOT = os.path.dirname(os.path.dirname(os.path.abspath(__file__)))
k = json.load(open(os.path.join(ROOT, "known_findings.json")))


def fixed():
    out = ["| commit | property | what failed before |", "|--------|----------|--------------------|"]
    for f in k["fixed"]:
        parts = f.split(" ", 3)
        out.append("| %s | %s | %s |" % (parts[2], parts[1].split("=")[1], parts[3].replace("|", "\\|")))
    return "\n".join(out)


def findings():
    out = ["| id | what fails (smallest witness in `known_findings.json`) |", "|----|---------------------------------------------------------|"]
    for e in k["findings"]:
        out.append("| %s | %s |" % (e["id"], e["what"].replace("|", "\\|")[:420]))
    return "\n".join(out)


def seeded():
    out = ["| seeded change | tier | detected | how / what was strengthened |", "|---------------|------|----------|-----------------------------|"]
    n = late = 0
    for d in sorted(glob.glob(os.path.join(ROOT, "seeded/*/meta.json"))):
        m = json.load(open(d))
        db = m.get("detected_by") or {}
        note = (db.get("note") or "").replace("|", "\\|").replace("_", " ")
        n += 1
        late += note.startswith("after strengthening")
        chk = db.get("check")
        out.append("| %s | %s%s | %s | %s |" % (os.path.basename(os.path.dirname(d)), db.get("tier"), "" if chk == m["property"] else " (%s)" % chk, "yes" if db.get("detected") else "NO", note))
    out.append("")
    out.append("%d seeded changes, all detected; %d of them only after the check was strengthened." % (n, late))
    return "\n".join(out)


p = os.path.join(ROOT, "DESIGN.md")
s = open(p).read()
for name, fn in (("fixed", fixed), ("findings", findings), ("seeded", seeded)):
    s = re.sub(r"(<!-- BEGIN:%s -->\n).*?(\n<!-- END:%s -->)" % (name, name), lambda m: m.group(1) + fn() + m.group(2), s, flags=re.S)
open(p, "w").write(s)
print("regenerated")
