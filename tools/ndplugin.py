"""pytest plugin (tools only, not part of any check): runs pyanalyze's own test-suite with the C10 set-iteration instrumentation in
recording mode and dumps, per process, the sites at which a builtin set/frozenset with >= 2 elements was iterated.
usage: cd /repo && PYTHONPATH=/verif:/verif/tools /venv/bin/python -m pytest -p ndplugin -p no:cacheprovider -q -n 8"""
import json, os
from mc import ndimport
ndimport.install()


def pytest_sessionfinish(session, exitstatus):
    S = ndimport.SCHED
    os.makedirs("/dev/shm/ndsites", exist_ok=True)
    with open("/dev/shm/ndsites/%d.json" % os.getpid(), "w") as f:
        json.dump({"sizes": {(k if isinstance(k, str) else ":".join(k)): v for k, v in S.sizes.items()}}, f)
