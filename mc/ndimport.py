"""Import-time instrumentation of pyanalyze for kind N exploration (C10).

install() puts a meta-path finder in front that loads every pyanalyze.* module from $VERIF_REPO through a
loader whose source_to_code rewrites the AST so that every iteration over a value passes through nd_iter():
  * the iterable of every for / comprehension,
  * every starred call argument / starred display element,
  * every positional argument of an iteration-consuming callable (list, tuple, sorted, join, unite_values, ...),
and every zero-argument .pop() through nd_pop().  At run time nd_iter returns its argument unchanged unless it is
exactly a builtin set / frozenset with >= 2 elements: then it is a *choice point* owned by the scheduler.
Nothing in the repository is modified."""
import ast
import builtins
import collections
import importlib.machinery
import importlib.util
import os
import sys

REPO = os.environ.get("VERIF_REPO", "/repo")
ITER_FUNCS = {"list", "tuple", "sorted", "min", "max", "next", "iter", "enumerate", "zip", "map", "filter", "any", "all", "sum", "join", "chain", "from_iterable", "fromkeys",
              "unite_values", "reversed", "uniq_chain", "extend", "update", "frozenset", "set", "dict", "Counter", "OrderedDict", "MultiValuedValue", "intersect_bounds_maps",
              "unify_bounds_maps", "make", "AndConstraint", "OrConstraint"}


class Scheduler:
    def __init__(self):
        self.policy = {}           # site -> policy  /  (site, occurrence) -> policy
        self.counts = collections.Counter()      # site -> number of choice points met in the current run
        self.sizes = {}            # site -> max set size seen
        self.static_sites = 0

    def reset_run(self):
        self.counts.clear()

    def choose(self, site, n):
        k = self.counts[site]
        self.counts[site] += 1
        self.sizes[site] = max(self.sizes.get(site, 0), n)
        return self.policy.get((site, k)) or self.policy.get(site)


SCHED = Scheduler()


class _NDSet(set):
    __slots__ = ("_order",)

    def __iter__(self):
        return iter(self._order)


class _NDFrozen(frozenset):
    def __iter__(self):
        return iter(self.__dict__["_order"])


def permute(lst, pol):
    if pol == "rev":
        return lst[::-1]
    if pol.startswith("rot"):
        k = int(pol[3:]) % max(len(lst), 1)
        return lst[k:] + lst[:k]
    if pol == "swap01" and len(lst) >= 2:
        return [lst[1], lst[0]] + lst[2:]
    return lst


def nd_iter(obj, site):
    t = type(obj)
    if (t is set or t is frozenset) and len(obj) >= 2:
        pol = SCHED.choose(site, len(obj))
        if pol is None:
            return obj
        order = permute(list(obj), pol)
        if t is set:
            s = _NDSet(obj)
            s._order = order
            return s
        s = _NDFrozen(obj)
        s.__dict__["_order"] = order
        return s
    return obj


def nd_pop(obj, site):
    if type(obj) is set and len(obj) >= 2:
        pol = SCHED.choose(("pop", site), len(obj))
        if pol is not None:
            x = permute(list(obj), pol)[0]
            obj.remove(x)
            return x
    return obj.pop()


class _T(ast.NodeTransformer):
    def __init__(self, mod):
        self.mod = mod

    def wrap(self, e):
        SCHED.static_sites += 1
        site = "%s:%d:%d" % (self.mod, getattr(e, "lineno", 0), getattr(e, "col_offset", 0))
        return ast.copy_location(ast.Call(func=ast.Name(id="verif_nd_iter", ctx=ast.Load()), args=[e, ast.Constant(site)], keywords=[]), e)

    def visit_For(self, node):
        self.generic_visit(node)
        node.iter = self.wrap(node.iter)
        return node

    visit_AsyncFor = visit_For

    def visit_comprehension(self, node):
        self.generic_visit(node)
        node.iter = self.wrap(node.iter)
        return node

    def visit_Starred(self, node):
        self.generic_visit(node)
        if isinstance(node.ctx, ast.Load):
            node.value = self.wrap(node.value)
        return node

    def visit_Call(self, node):
        self.generic_visit(node)
        f = node.func
        name = f.id if isinstance(f, ast.Name) else f.attr if isinstance(f, ast.Attribute) else None
        if name == "pop" and isinstance(f, ast.Attribute) and not node.args and not node.keywords:
            site = "%s:%d:%d" % (self.mod, node.lineno, node.col_offset)
            return ast.copy_location(ast.Call(func=ast.Name(id="verif_nd_pop", ctx=ast.Load()), args=[f.value, ast.Constant(site)], keywords=[]), node)
        if name in ITER_FUNCS:
            node.args = [a if isinstance(a, ast.Starred) else self.wrap(a) for a in node.args]
        return node


class _Loader(importlib.machinery.SourceFileLoader):
    def source_to_code(self, data, path, *, _optimize=-1):
        tree = ast.parse(data, path)
        tree = _T(os.path.basename(path)).visit(tree)
        ast.fix_missing_locations(tree)
        return compile(tree, path, "exec", dont_inherit=True, optimize=_optimize)


class _Finder:
    @staticmethod
    def find_spec(name, path=None, target=None):
        if name == "pyanalyze" or name.startswith("pyanalyze."):
            parts = name.split(".")
            base = os.path.join(REPO, *parts)
            if os.path.isdir(base):
                fn = os.path.join(base, "__init__.py")
                return importlib.util.spec_from_file_location(name, fn, loader=_Loader(name, fn), submodule_search_locations=[base])
            fn = base + ".py"
            if os.path.exists(fn):
                return importlib.util.spec_from_file_location(name, fn, loader=_Loader(name, fn))
        return None


_INSTALLED = False


def install():
    global _INSTALLED
    if _INSTALLED:
        return
    assert "pyanalyze" not in sys.modules, "instrumentation must be installed before pyanalyze is imported"
    builtins.verif_nd_iter = nd_iter
    builtins.verif_nd_pop = nd_pop
    sys.meta_path.insert(0, _Finder)
    sys.dont_write_bytecode = True
    _INSTALLED = True
