import argparse
import importlib
import os
import sys


def main():
    ap = argparse.ArgumentParser()
    ap.add_argument("prop")
    ap.add_argument("--tier", default=os.environ.get("VERIF_TIER", "quick"), choices=["quick", "thorough"])
    ap.add_argument("--replay")
    a = ap.parse_args()
    from mc import core
    mod = importlib.import_module("props." + a.prop.lower())
    seed = int(os.environ.get("VERIF_SEED", "0") or 0)
    if a.replay:
        sys.exit(core.run_replay(mod, a.replay))
    sys.exit(core.run_property(mod, a.tier, seed))


if __name__ == "__main__":
    main()
