"""Property-independent part of the explorer: worker pool, aggregation of
per-unit results, known-finding classification, replay artefacts, evidence.

A property module (props/cNN.py) provides

    ID, TITLE, META (dict for MANIFEST)
    units(tier)            -> list of small picklable work descriptors; together they
                              partition the complete bounded space of that tier
    run_unit(unit)         -> UnitResult (executed in a worker; drives the real pyanalyze)
    replay(case)           -> list of violation dicts for exactly that case (may be empty)
    bounds(tier)           -> dict describing the bound that the tier completes

A violation is a dict {"sig": {field: str}, "case": json-able, "msg": str}.
"""
from __future__ import annotations

import collections
import hashlib
import json
import multiprocessing
import os
import re
import sys
import time
import traceback

ROOT = os.path.dirname(os.path.dirname(os.path.abspath(__file__)))
REPO = os.environ.get("VERIF_REPO", "/repo")
if REPO not in sys.path[:1]:
    sys.path.insert(0, REPO)      # every `import pyanalyze` (also one made before pa.run is imported) must resolve to the tree under test
NPROC = int(os.environ.get("VERIF_NPROC", "16"))


class UnitResult:
    """What one work unit covered.  Counters are measured, never constants."""

    __slots__ = ("states", "transitions", "validated", "outcomes", "viol", "viol_counts", "samples", "caps", "extra")

    def __init__(self):
        self.states = 0          # distinct canonical cases / states enumerated
        self.transitions = 0     # executions of the real implementation
        self.validated = 0       # oracle predictions compared with the implementation
        self.outcomes = collections.Counter()   # verdict classes observed (vacuity guard)
        self.viol = {}           # sigkey -> first witness (enumeration order = simplest first)
        self.viol_counts = collections.Counter()
        self.samples = []
        self.caps = []
        self.extra = collections.Counter()

    def violation(self, sig, case, msg):
        key = sigkey(sig)
        self.viol_counts[key] += 1
        if key not in self.viol:
            self.viol[key] = {"sig": sig, "case": case, "msg": msg}

    def sample(self, s, limit=2):
        if len(self.samples) < limit:
            self.samples.append(s)

    def pack(self):
        return {k: getattr(self, k) for k in self.__slots__}


def sigkey(sig):
    return json.dumps(sig, sort_keys=True, default=str)


# --------------------------------------------------------------------------
# known findings

def load_findings(prop_id):
    path = os.path.join(ROOT, "known_findings.json")
    if not os.path.exists(path):
        return []
    with open(path) as f:
        data = json.load(f)
    return [e for e in data.get("findings", []) if e["property"] == prop_id]


def _field_matches(pat, val):
    if pat == "*":
        return True
    if isinstance(pat, list):
        return any(_field_matches(p, val) for p in pat)
    val = str(val)
    if isinstance(pat, str) and pat.startswith("re:"):
        return re.fullmatch(pat[3:], val, re.S) is not None
    return str(pat) == val


def match_finding(findings, sig):
    for e in findings:
        m = e["match"]
        if all(k in sig and _field_matches(p, sig[k]) for k, p in m.items()):
            return e
    return None


# --------------------------------------------------------------------------
# worker side

_MOD = None


def _worker_init(modname, repo):
    global _MOD
    os.environ["VERIF_REPO"] = repo
    sys.setrecursionlimit(10000)
    import importlib
    _MOD = importlib.import_module(modname)
    if hasattr(_MOD, "worker_init"):
        _MOD.worker_init()


def _worker_run(unit):
    try:
        r = _MOD.run_unit(unit)
        return ("ok", unit, r.pack())
    except BaseException:
        return ("crash", unit, traceback.format_exc())


def _worker_replay(case):
    try:
        return ("ok", _MOD.replay(case))
    except BaseException:
        return ("crash", traceback.format_exc())


def fresh_replay(modname, case):
    """Replay one case in a brand-new worker process."""
    ctx = multiprocessing.get_context("fork")
    with ctx.Pool(1, initializer=_worker_init, initargs=(modname, REPO)) as p:
        return p.apply(_worker_replay, (case,))


# --------------------------------------------------------------------------
# driver

def run_property(mod, tier, seed):
    t0 = time.time()
    pid = mod.ID
    modname = mod.__name__
    units = list(mod.units(tier))
    findings = load_findings(pid)
    agg = UnitResult()
    crashes = []
    nproc = min(NPROC, max(1, len(units)))
    ctx = multiprocessing.get_context("fork")
    maxtasks = getattr(mod, "MAXTASKS", None)
    with ctx.Pool(nproc, initializer=_worker_init, initargs=(modname, REPO), maxtasksperchild=maxtasks) as pool:
        for status, unit, payload in pool.imap_unordered(_worker_run, units, chunksize=1):
            if status != "ok":
                crashes.append((unit, payload))
                continue
            agg.states += payload["states"]
            agg.transitions += payload["transitions"]
            agg.validated += payload["validated"]
            agg.outcomes.update(payload["outcomes"])
            agg.viol_counts.update(payload["viol_counts"])
            agg.extra.update(payload["extra"])
            for k, w in payload["viol"].items():
                if k not in agg.viol or _case_order(w) < _case_order(agg.viol[k]):
                    agg.viol[k] = w
            for s in payload["samples"]:
                if len(agg.samples) < 6:
                    agg.samples.append(s)
            agg.caps.extend(payload["caps"])

    broken = []
    if crashes:
        for unit, tb in crashes[:3]:
            broken.append("worker crashed on unit %r:\n%s" % (unit, tb))
    if hasattr(mod, "finalize"):
        mod.finalize(agg, tier)
    # classify
    known_seen = collections.OrderedDict()
    unknown = []
    for key in sorted(agg.viol, key=lambda k: (_case_order(agg.viol[k]), k)):
        w = agg.viol[key]
        e = match_finding(findings, w["sig"])
        if e is not None:
            known_seen.setdefault(e["id"], [e, 0])
            known_seen[e["id"]][1] += agg.viol_counts[key]
        else:
            unknown.append(w)
    out_lines = []
    for fid, (e, n) in known_seen.items():
        out_lines.append("KNOWN-FINDING: property=%s %s [%s, %d occurrence(s) in this run]" % (pid, e["what"], fid, n))
    nviol = 0
    if os.environ.get("VERIF_TRIAGE"):
        for w in unknown:
            print("TRIAGE %6d %s\n        %s" % (agg.viol_counts[sigkey(w["sig"])], sigkey(w["sig"]), w["msg"].replace("\n", "\n        ")))
        unknown_for_replay = []
    else:
        unknown_for_replay = unknown
    MAXREPORT = int(os.environ.get("VERIF_MAX_REPORT", "25"))
    for w in unknown_for_replay[:MAXREPORT]:
        # replay twice in fresh workers; the same case must fail identically
        r1 = fresh_replay(modname, w["case"])
        r2 = fresh_replay(modname, w["case"])
        if r1[0] != "ok" or r2[0] != "ok":
            broken.append("replay crashed for %s: %s" % (sigkey(w["sig"]), (r1 if r1[0] != "ok" else r2)[1]))
            continue
        k1 = sorted(sigkey(v["sig"]) for v in r1[1])
        k2 = sorted(sigkey(v["sig"]) for v in r2[1])
        free_running = bool(getattr(mod, "FREE_RUNNING", None) and mod.FREE_RUNNING(w["case"]))
        if k1 != k2 and not free_running:
            broken.append("replay diverged for %s: %s vs %s" % (sigkey(w["sig"]), k1, k2))
            continue
        if free_running:
            # a free-running (uncontrolled) observation: trusted when at least one of the two replays shows it again
            k1 = sorted(set(k1) | set(k2))
        if sigkey(w["sig"]) not in k1:
            broken.append("violation %s not reproduced on replay (got %s); case=%s" % (sigkey(w["sig"]), k1, json.dumps(w["case"], default=str)[:500]))
            continue
        path = write_replay(pid, w)
        nviol += 1
        out_lines.append("VIOLATION property=%s replay=%s" % (pid, path))
        out_lines.append("  what: %s" % w["msg"].replace("\n", "\n        "))
        out_lines.append("  signature: %s   (%d occurrence(s))" % (sigkey(w["sig"]), agg.viol_counts[sigkey(w["sig"])]))
    if len(unknown) > MAXREPORT:
        out_lines.append("(... %d further distinct unlisted violation signatures not replayed)" % (len(unknown) - MAXREPORT))
    parts = getattr(mod, "PARTS", [])
    present = {re.split(r"[:/]", k)[0] for k in agg.outcomes}
    missing = [x for x in parts if x not in present]
    if missing and not broken:
        broken.append("vacuous exploration: part(s) %s produced no outcome at all (outcome classes seen: %s)" % (missing, sorted(present)))
    if len(agg.outcomes) < 2 and not broken:
        broken.append("vacuous exploration: only %d distinct outcome class(es): %r" % (len(agg.outcomes), dict(agg.outcomes)))
    wall = time.time() - t0
    bounds = mod.bounds(tier)
    exhaustive = not agg.caps
    ev = {
        "property_id": pid,
        "tier": tier,
        "seed": seed,
        "level": "model_checking",
        "coverage": {
            "states": agg.states,
            "transitions": agg.transitions,
            "traces_validated_against_impl": agg.validated,
            "samples": agg.samples or ["<none>"],
            "exhaustive": exhaustive,
            "bound_completed": bounds,
            "units": len(units),
            "distinct_outcomes": len(agg.outcomes),
            "outcomes": dict(agg.outcomes.most_common(40)),
            "violating_cases_total": sum(agg.viol_counts.values()),
            "distinct_violation_signatures": len(agg.viol),
            "known_findings_seen": {fid: n for fid, (e, n) in known_seen.items()},
            "unlisted_violation_signatures": len(unknown),
            "caps_hit": agg.caps[:20],
            "extra": dict(agg.extra),
            "rule": getattr(mod, "RULE", ""),
            "repo": REPO,
            "broken": broken,
        },
        "assumptions": list(getattr(mod, "ASSUMPTIONS", [])),
        "wall_s": round(wall, 2),
        "violations": nviol,
    }
    os.makedirs(os.path.join(ROOT, "evidence"), exist_ok=True)
    with open(os.path.join(ROOT, "evidence", pid + ".json"), "w") as f:
        json.dump(ev, f, indent=1, default=str, sort_keys=True)
        f.write("\n")
    print("%s %s: states=%d transitions=%d validated=%d outcomes=%d violating_cases=%d signatures=%d (known %d, unlisted %d) wall=%.1fs exhaustive=%s"
          % (pid, tier, agg.states, agg.transitions, agg.validated, len(agg.outcomes), sum(agg.viol_counts.values()),
             len(agg.viol), len(agg.viol) - len(unknown), len(unknown), wall, exhaustive))
    for l in out_lines:
        print(l)
    if broken:
        for b in broken:
            print("BROKEN-CHECK: " + b)
        return 2
    return 1 if nviol else 0


def _case_order(w):
    c = w["case"]
    return (c.get("order", 0) if isinstance(c, dict) else 0, len(json.dumps(c, default=str)))


def write_replay(pid, w):
    d = os.path.join(ROOT, "replays", pid)
    os.makedirs(d, exist_ok=True)
    blob = json.dumps({"property": pid, "sig": w["sig"], "case": w["case"], "msg": w["msg"]}, indent=1, default=str, sort_keys=True)
    h = hashlib.sha1(sigkey(w["sig"]).encode()).hexdigest()[:12]
    path = os.path.join(d, h + ".json")
    with open(path, "w") as f:
        f.write(blob + "\n")
    return os.path.relpath(path, ROOT)


def run_replay(mod, path):
    with open(path) as f:
        data = json.load(f)
    r = fresh_replay(mod.__name__, data["case"])
    if r[0] != "ok":
        print("BROKEN-CHECK: replay crashed:\n" + r[1])
        return 2
    findings = load_findings(mod.ID)
    rc = 0
    if not r[1]:
        print("replay of %s: no violation (property holds on this case)" % path)
    for v in r[1]:
        e = match_finding(findings, v["sig"])
        if e:
            print("KNOWN-FINDING: property=%s %s [%s]" % (mod.ID, e["what"], e["id"]))
        else:
            print("VIOLATION property=%s replay=%s" % (mod.ID, path))
            rc = 1
        print("  what: %s" % v["msg"].replace("\n", "\n        "))
        print("  signature: %s" % sigkey(v["sig"]))
    return rc
