"""Regenerates MANIFEST.json from the property modules that exist (python -m mc.manifest)."""
import importlib
import json
import os

ROOT = os.path.dirname(os.path.dirname(os.path.abspath(__file__)))

PENDING_REASON = "check not built yet in this tree (planned in DESIGN.md section 5); no claim is made until ./check %s exists"


def main():
    ids = [json.loads(l)["id"] for l in open(os.path.join(ROOT, "properties.jsonl"))]
    checks = []
    na = []
    overrides = {}
    p = os.path.join(ROOT, "not_applicable.json")
    if os.path.exists(p):
        overrides = json.load(open(p))
    for pid in ids:
        path = os.path.join(ROOT, "props", pid.lower() + ".py")
        if pid in overrides:
            na.append({"property_id": pid, "reason": overrides[pid]})
            continue
        if not os.path.exists(path):
            na.append({"property_id": pid, "reason": PENDING_REASON % pid})
            continue
        mod = importlib.import_module("props." + pid.lower())
        meta = getattr(mod, "META", {})
        checks.append({
            "property_id": pid,
            "quick_cmd": "./check %s --tier quick" % pid,
            "thorough_cmd": "./check %s --tier thorough" % pid,
            "evidence_file": "evidence/%s.json" % pid,
            "replay_cmd_template": "./check %s --replay {path}" % pid,
            "engine": "mc",
            "level_claimed": {
                "category": "model_checking",
                "text": meta.get("text", mod.RULE),
                "design_ref": "DESIGN.md section 5, " + pid,
            },
            "level_note": meta.get("note", "; ".join(getattr(mod, "ASSUMPTIONS", []))),
            "technique": meta.get("technique", "bounded exhaustive enumeration of inputs against the real implementation with an independent oracle"),
        })
    man = {
        "version": 1,
        "setup_cmd": "/venv/bin/python -m compileall -q mc pa ref props >/dev/null && ./check --help >/dev/null",
        "hooks": {
            "guard": "PYANALYZE_VERIF",
            "enable": "no source hooks: checks import pyanalyze from /repo's working tree in fresh worker processes; C10 instruments set iteration by rewriting the AST at import time outside the repository",
            "baseline_off_cmd": "cd /repo && /venv/bin/python -m pytest -ra -q -p no:cacheprovider --timeout=900 --continue-on-collection-errors",
            "source_commits": [],
            "add_only": True,
        },
        "engines": [{
            "name": "mc",
            "path": "mc/",
            "serves_properties": [c["property_id"] for c in checks],
            "kind_free_text": "hand-written bounded exhaustive explorer for Python: grammar expansion simplest-first, explicit-state search over the real transition functions, choice-point scheduler for set iteration; reference models in ref/; 16 forked workers",
        }],
        "checks": checks,
        "not_applicable": na,
        "notes": "All checks enumerate a finite, explicitly bounded space completely and compare the real pyanalyze (imported from /repo) with an independent oracle (CPython itself or a small reference model) on every element. Exit 0 = held (KNOWN-FINDING lines allowed), 1 = unlisted violation, 2 = check itself broken. known_findings.json lists confirmed genuine defects by signature.",
    }
    with open(os.path.join(ROOT, "MANIFEST.json"), "w") as f:
        json.dump(man, f, indent=1)
        f.write("\n")
    print("MANIFEST.json: %d checks, %d not_applicable" % (len(checks), len(na)))


if __name__ == "__main__":
    main()
