"""Enumeration of def-signature shapes and call shapes (shared by C05, C07, C13)."""
import itertools

POS_NAMES = ["a", "b", "c", "d", "e", "g"]


def signatures(max_params, names=POS_NAMES):
    """All valid parameter lists with <= max_params parameters, simplest first.
    A parameter is (kind, name, has_default) with kind in po pk va ko vk."""
    out = []
    for n in range(0, max_params + 1):
        for kinds in itertools.product(["po", "pk", "va", "ko", "vk"], repeat=n):
            # order constraint
            rank = {"po": 0, "pk": 1, "va": 2, "ko": 3, "vk": 4}
            r = [rank[k] for k in kinds]
            if r != sorted(r):
                continue
            if kinds.count("va") > 1 or kinds.count("vk") > 1:
                continue
            npos = kinds.count("po") + kinds.count("pk")
            nko = kinds.count("ko")
            # defaults of positional params: a suffix; kw-only: any subset
            for first_default in range(npos, -1, -1):
                for kodef in itertools.product([False, True], repeat=nko):
                    params = []
                    i = 0
                    ki = 0
                    for k in kinds:
                        if k in ("po", "pk"):
                            params.append((k, names[i], i >= first_default))
                            i += 1
                        elif k == "ko":
                            params.append((k, names[i], kodef[ki]))
                            i += 1
                            ki += 1
                        elif k == "va":
                            params.append((k, "args", False))
                        else:
                            params.append((k, "kw", False))
                    out.append(tuple(params))
    return out


def render_params(params, ann=None, default="0"):
    """Source text of a parameter list.  ann: optional {name: annotation}."""
    parts = []
    kinds = [p[0] for p in params]
    seen_star = False
    for idx, (k, name, d) in enumerate(params):
        a = (": " + ann[name]) if ann and name in ann else ""
        if k == "po":
            parts.append(name + a + ("=" + default if d and not a else (" = " + default if d else "")))
            if idx + 1 == len(params) or kinds[idx + 1] != "po":
                parts.append("/")
        elif k == "pk":
            parts.append(name + a + ("=" + default if d and not a else (" = " + default if d else "")))
        elif k == "va":
            parts.append("*" + name + a)
            seen_star = True
        elif k == "ko":
            if not seen_star:
                parts.append("*")
                seen_star = True
            parts.append(name + a + ("=" + default if d and not a else (" = " + default if d else "")))
        else:
            parts.append("**" + name + a)
    return ", ".join(parts)


def sig_label(params):
    return ",".join(k + ("=" if d else "") for k, _, d in params)


def call_shapes(params, max_pos, max_kw, stars=True, extra_names=("z",)):
    """All call shapes for one signature, simplest first.
    Shape = (npos, kwnames tuple, star (None or int length), starkw (None or tuple of names))."""
    names = [n for k, n, d in params if k in ("po", "pk", "ko")] + list(extra_names)
    kwsets = []
    for r in range(0, max_kw + 1):
        kwsets.extend(itertools.combinations(names, r))
    first_kw = next((n for k, n, d in params if k in ("pk", "ko")), None)
    star_opts = [None, 0, 1, 2] if stars else [None]
    skw_opts = [None, ()]
    if stars:
        if first_kw:
            skw_opts.append((first_kw,))
        skw_opts.append(("z",))
    out = []
    for npos in range(0, max_pos + 1):
        for kws in kwsets:
            for st in star_opts:
                for sk in skw_opts:
                    out.append((npos, kws, st, sk))
    out.sort(key=lambda s: (s[0] + len(s[1]) + (0 if s[2] is None else 1 + s[2]) + (0 if s[3] is None else 1 + len(s[3]))))
    return out


def render_call(fn, shape, val="0"):
    npos, kws, st, sk = shape
    parts = [val] * npos
    if st is not None:
        parts.append("*(" + "".join(val + ", " for _ in range(st)) + ")")
    parts.extend("%s=%s" % (k, val) for k in kws)
    if sk is not None:
        parts.append("**{" + ", ".join('"%s": %s' % (k, val) for k in sk) + "}")
    return "%s(%s)" % (fn, ", ".join(parts))


def real_call_binds(f, shape, val=0):
    """CPython oracle: does the call bind?  f has body `pass`."""
    npos, kws, st, sk = shape
    args = [val] * npos + ([val] * st if st is not None else [])
    kwargs = {k: val for k in kws}
    try:
        if sk is None:
            f(*args, **kwargs)
        else:
            # explicit keywords and **dict are separate sources: duplicates raise TypeError
            f(*args, **kwargs, **{k: val for k in sk})
    except TypeError as e:
        return False, str(e)
    return True, ""
