"""Builds pyanalyze Value objects for type terms with the public constructors of pyanalyze.value
(independent of annotations.py, which is C13's subject)."""
import collections.abc
import types
import typing
from typing import Any, Literal, Union, get_args, get_origin

import typing_extensions


def value_of(T):
    from pyanalyze import value as V
    from pyanalyze.annotations import type_from_runtime
    if T is Any:
        return V.AnyValue(V.AnySource.explicit)
    if T is None or T is type(None):
        return V.KnownValue(None)
    if T is typing.NoReturn or T is typing.Never:
        return V.NO_RETURN_VALUE
    if get_origin(T) is Union or isinstance(T, types.UnionType):
        return V.MultiValuedValue([value_of(a) for a in get_args(T)])
    org = get_origin(T)
    args = get_args(T)
    if org is Literal or org is typing_extensions.Literal:
        vals = [V.KnownValue(a) for a in args]
        return vals[0] if len(vals) == 1 else V.MultiValuedValue(vals)
    if getattr(T, "__supertype__", None) is not None or typing_extensions.is_typeddict(T) or org is typing.Annotated:
        return type_from_runtime(T)
    if org is type:
        a = args[0]
        if a is Any:
            return V.TypedValue(type)
        return V.SubclassValue(value_of(a))
    if org is None:
        if isinstance(T, type):
            return V.TypedValue(T)
        raise ValueError(T)
    if org is tuple:
        if len(args) == 2 and args[1] is Ellipsis:
            return V.GenericValue(tuple, [value_of(args[0])])
        if args == ((),) or not args:
            return V.SequenceValue(tuple, [])
        members = []
        for a in args:
            if getattr(a, "__unpacked__", False) or get_origin(a) in (typing.Unpack, typing_extensions.Unpack):
                inner = a if getattr(a, "__unpacked__", False) else get_args(a)[0]
                ia = get_args(inner)
                assert len(ia) == 2 and ia[1] is Ellipsis, a
                members.append((True, value_of(ia[0])))
            else:
                members.append((False, value_of(a)))
        return V.SequenceValue(tuple, members)
    if org in (list, set, frozenset, dict, collections.abc.Sequence, collections.abc.Iterable, collections.abc.Mapping, collections.abc.Collection):
        return V.GenericValue(org, [value_of(a) for a in args])
    raise ValueError(T)
