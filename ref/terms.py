"""Static type terms as annotation source strings, enumerated by depth (simplest first)."""

BASE = ["int", "str", "bool", "float", "complex", "bytes", "None", "object", "A", "B", "C", "D", "E", "IE", "NT", "TD", "DC",
        "Literal[1]", 'Literal["a"]', "Literal[True]", "Literal[E.X]", "Literal[None]", "tuple", "list", "dict", "type", "IS", "FS"]
SMALL = ["int", "str", "float", "bool", "None", "A", "Literal[1]", "E"]
CLASSES = {"int", "str", "bool", "A", "B", "C", "D", "E", "IE", "DC", "object", "IS", "FS"}


def depth2(small=SMALL):
    out = []
    for a in small:
        out += ["list[%s]" % a, "set[%s]" % a, "frozenset[%s]" % a, "tuple[%s, ...]" % a, "tuple[%s]" % a, "Sequence[%s]" % a, "Iterable[%s]" % a,
                "Optional[%s]" % a, 'Annotated[%s, "m"]' % a, "List[%s]" % a]
        if a in CLASSES:
            out.append("type[%s]" % a)
        for b in small:
            out += ["dict[%s, %s]" % (a, b), "tuple[%s, %s]" % (a, b), "Mapping[%s, %s]" % (a, b)]
            if a != b:
                out.append("Union[%s, %s]" % (a, b))
            out += ["tuple[%s, *tuple[%s, ...]]" % (a, b), "tuple[*tuple[%s, ...], %s]" % (a, b)]
    out += ["tuple[()]", "tuple[int, *tuple[str, ...], float]", "tuple[int, str, float]", "type[B]", "type[C]", "Union[int, str, None]",
            "Literal[1, 2]", 'Literal["a", "b"]', "Literal[E.X, E.Y]", "Literal[1, True]", "Union[A, C]", "Union[B, C]", "Optional[NT]", "list[NT]", "list[TD]", "Optional[TD]",
            "list[object]", "tuple[object, ...]", "dict[str, object]", "Sequence[object]", "list[B]", "list[D]", "Optional[B]", "Optional[E]", "Optional[IE]", "list[IE]",
            "list[complex]", "Optional[complex]", "tuple[complex, ...]", "dict[str, complex]", "list[bytes]", "Optional[bytes]", "Sequence[bytes]", "Sequence[str]"]
    seen = set()
    res = []
    for t in out:
        if t not in seen:
            seen.add(t)
            res.append(t)
    return res


def depth3():
    out = []
    for x in depth2():
        if x.startswith("Annotated"):
            continue
        out += ["list[%s]" % x, "Optional[%s]" % x, "tuple[%s, ...]" % x, "dict[str, %s]" % x, "Sequence[%s]" % x, "tuple[%s, int]" % x]
    return out


# a few depth-3 terms that the quick tier takes as well: containers of containers whose members may be equal but of different types ((True,) == (1,))
EXTRA2 = ["list[tuple[bool]]", "list[tuple[int]]", "tuple[tuple[bool], ...]", "list[dict[str, bool]]", "tuple[tuple[float], tuple[int], tuple[bool]]", "Sequence[tuple[bool, ...]]"]
# terms only C03 takes (they exercise known defects of the annotation evaluation that would only add noise to the type-to-type checks)
EXTRA3 = ["TDC", "TDD", "list[TDC]", "Optional[TDD]",
          # bare typing.Tuple, type[None], a NewType of a NewType
          "Tuple", "type[None]", "NT2", "list[NT2]", "TDB"]


def terms(maxdepth, extra=False):
    t = list(BASE)
    if maxdepth >= 2:
        t += depth2()
    if maxdepth >= 3:
        t += depth3()
    seen = set(t)
    t += [x for x in EXTRA2 if x not in seen]
    if extra:
        t += [x for x in EXTRA3 if x not in seen and x not in EXTRA2]
    return t
