"""in_value(o, V): does runtime object o belong to the pyanalyze Value V?  Reads the output data
structure only; never calls can_assign / predicates / constraints."""
import collections.abc


class Unknown(Exception):
    pass


def typed_instance(o, t):
    if t is float:
        return isinstance(o, (int, float))
    if t is complex:
        return isinstance(o, (int, float, complex))
    try:
        return isinstance(o, t)
    except TypeError:
        return True


def in_value(o, v):
    from pyanalyze import value as V
    if isinstance(v, V.AnnotatedValue):
        if not in_value(o, v.value):
            return False
        for m in v.metadata:
            # length facts are part of the revealed type
            if type(m).__name__ == "CustomCheckExtension":
                cc = m.custom_check
                n = type(cc).__name__
                try:
                    if n == "MinLen" and not len(o) >= cc.value:
                        return False
                    if n == "MaxLen" and not len(o) <= cc.value:
                        return False
                    # ordering facts recorded by comparisons with a constant (annotated_types-style checks of pyanalyze.annotated_types)
                    if n == "Gt" and not o > cc.value:
                        return False
                    if n == "Ge" and not o >= cc.value:
                        return False
                    if n == "Lt" and not o < cc.value:
                        return False
                    if n == "Le" and not o <= cc.value:
                        return False
                except TypeError:
                    pass
        return True
    if isinstance(v, V.AnyValue):
        return True
    if isinstance(v, V.MultiValuedValue):
        return any(in_value(o, x) for x in v.vals)
    if isinstance(v, V.KnownValue):
        try:
            if type(o) is not type(v.val):
                return False
            if o is v.val:
                return True
            if isinstance(o, float) and o != o and v.val != v.val:
                return True
            return bool(o == v.val)
        except Exception:
            return o is v.val
    if isinstance(v, V.TypeVarValue):
        return in_value(o, v.get_fallback_value())
    if isinstance(v, V.NewTypeValue):
        return in_value(o, V.TypedValue(v.typ)) if isinstance(v.typ, type) else True
    if isinstance(v, V.SubclassValue):
        if not isinstance(o, type):
            return False
        if isinstance(v.typ, V.TypedValue) and isinstance(v.typ.typ, type):
            return issubclass(o, v.typ.typ)
        return True
    if isinstance(v, V.CallableValue):
        return callable(o)
    if isinstance(v, V.TypedDictValue):
        if not isinstance(o, dict):
            return False
        for k, e in v.items.items():
            if k in o:
                if not in_value(o[k], e.typ):
                    return False
            elif e.required:
                return False
        for k in o:
            if k not in v.items:
                if not isinstance(k, str):
                    return False      # the keys of a TypedDict are strings (same convention as ref/member.py)
                if v.extra_keys is None:
                    continue
                if not in_value(o[k], v.extra_keys):
                    return False
        return True
    if isinstance(v, V.DictIncompleteValue):
        t = v.typ if isinstance(v.typ, type) else dict
        if not isinstance(o, t):
            return False
        for k, val in o.items():
            if not any(in_value(k, p.key) and in_value(val, p.value) for p in v.kv_pairs):
                return False
        for p in v.kv_pairs:
            if p.is_required and not p.is_many and isinstance(p.key, V.KnownValue):
                try:
                    if p.key.val not in o:
                        return False
                except TypeError:
                    return False
        return True
    if isinstance(v, V.SequenceValue):
        if not isinstance(v.typ, type):
            return True
        if not isinstance(o, v.typ):
            return False
        items = list(o)
        if issubclass(v.typ, (set, frozenset)):
            return all(any(in_value(x, m) for _, m in v.members) for x in items)
        mem = v.members

        def m(i, j):
            if j == len(mem):
                return i == len(items)
            many, val = mem[j]
            if many:
                if m(i, j + 1):
                    return True
                return i < len(items) and in_value(items[i], val) and m(i + 1, j)
            return i < len(items) and in_value(items[i], val) and m(i + 1, j + 1)
        return m(0, 0)
    if isinstance(v, V.GenericValue):
        t = v.typ
        if not isinstance(t, type):
            return True
        if t is tuple:
            return isinstance(o, tuple) and all(in_value(x, v.args[0]) for x in o)
        if not typed_instance(o, t):
            return False
        if issubclass(t, collections.abc.Mapping) and len(v.args) == 2:
            return all(in_value(k, v.args[0]) and in_value(x, v.args[1]) for k, x in o.items())
        if isinstance(o, str):       # nominal convention shared with ref/member.py: str is a sequence of str, bytes of int
            return len(v.args) != 1 or (in_value("a", v.args[0]) and in_value("\x00zz", v.args[0]))
        if isinstance(o, (bytes, bytearray)):
            return len(v.args) != 1 or in_value(0, v.args[0])
        if isinstance(o, collections.abc.Iterable) and len(v.args) == 1 and not isinstance(o, collections.abc.Iterator) and not isinstance(o, type):
            if issubclass(t, (collections.abc.Iterable,)):
                return all(in_value(x, v.args[0]) for x in (o if not isinstance(o, dict) else o.keys()))
        return True
    if isinstance(v, V.TypedValue):
        t = v.typ
        if not isinstance(t, type):
            return True
        return typed_instance(o, t)
    if isinstance(v, (V.UnboundMethodValue,)):
        return callable(o)
    raise Unknown(type(v).__name__)
