"""member(o, T): structural isinstance written from the typing specification (not from pyanalyze).
T is a runtime typing object (the annotation evaluated in the prelude namespace)."""
import collections.abc
import types
import typing
from typing import Any, Literal, Union, get_args, get_origin

import typing_extensions


class Unsupported(Exception):
    pass


def _is_union(T):
    return get_origin(T) is Union or isinstance(T, types.UnionType)


def _match_tuple(items, args):
    """args: tuple type arguments possibly containing one Unpack[tuple[X, ...]] (or *tuple[X, ...])."""
    # normalise
    elems = []   # (many, type)
    for a in args:
        org = get_origin(a)
        if org is typing.Unpack or org is typing_extensions.Unpack or getattr(a, "__typing_is_unpacked_typevartuple__", False):
            inner = get_args(a)[0]
            ia = get_args(inner)
            if get_origin(inner) is tuple and len(ia) == 2 and ia[1] is Ellipsis:
                elems.append((True, ia[0]))
            else:
                raise Unsupported(a)
        elif getattr(a, "__unpacked__", False):     # *tuple[X, ...] written with the star syntax (GenericAlias with unpacked flag)
            ia = get_args(a)
            if len(ia) == 2 and ia[1] is Ellipsis:
                elems.append((True, ia[0]))
            else:
                raise Unsupported(a)
        else:
            elems.append((False, a))

    def m(i, j):
        if j == len(elems):
            return i == len(items)
        many, t = elems[j]
        if many:
            if m(i, j + 1):
                return True
            return i < len(items) and member(items[i], t) and m(i + 1, j)
        return i < len(items) and member(items[i], t) and m(i + 1, j + 1)
    return m(0, 0)


def member(o, T):
    if T is Any:
        raise Unsupported(T)
    if T is object:
        return True
    if T is None or T is type(None):
        return o is None
    if _is_union(T):
        return any(member(o, a) for a in get_args(T))
    org = get_origin(T)
    args = get_args(T)
    if org is Literal or org is typing_extensions.Literal:
        return any(type(o) is type(a) and o == a for a in args)
    if getattr(T, "__supertype__", None) is not None:      # NewType: runtime identity
        return member(o, T.__supertype__)
    if typing.is_typeddict(T) or typing_extensions.is_typeddict(T):
        if not isinstance(o, dict):
            return False
        hints = typing_extensions.get_type_hints(T, include_extras=False)
        for k in T.__required_keys__:
            if k not in o:
                return False
        for k, v in o.items():
            if k not in hints:
                if not isinstance(k, str):
                    return False    # the keys of a TypedDict are strings
                continue    # TypedDicts are open (PEP 589): extra (string) keys do not exclude a dict from the type
            if not member(v, hints[k]):
                return False
        return True
    if org is type:
        if not isinstance(o, type):
            return False
        a = args[0]
        if a is Any or a is object:
            return True
        if a is None or a is type(None):
            return o is type(None)
        if _is_union(a):
            return any(member(o, type[x]) for x in get_args(a))
        if a in (float, complex):
            raise Unsupported(T)      # promotion of class objects is unspecified
        return issubclass(o, a)
    if org is typing.Annotated or org is typing_extensions.Annotated:
        return member(o, args[0])
    if org is None:
        if T is float:
            return isinstance(o, (int, float))
        if T is complex:
            return isinstance(o, (int, float, complex))
        if isinstance(T, type):
            return isinstance(o, T)
        raise Unsupported(T)
    if org is tuple:
        if not isinstance(o, tuple):
            return False
        if len(args) == 2 and args[1] is Ellipsis:
            return all(member(x, args[0]) for x in o)
        if args == ((),) or not args:
            return len(o) == 0
        return _match_tuple(list(o), args)
    if org in (list, set, frozenset):
        return isinstance(o, org) and all(member(x, args[0]) for x in o)
    if org is dict:
        return isinstance(o, dict) and all(member(k, args[0]) and member(v, args[1]) for k, v in o.items())
    if org in (collections.abc.Sequence, collections.abc.Iterable, collections.abc.Collection, collections.abc.Container):
        if not isinstance(o, org):
            return False
        if isinstance(o, str):      # nominal convention: str is a sequence of str (any str, not just some literal), also when empty
            return member("a", args[0]) and member("\x00zz", args[0])
        if isinstance(o, (bytes, bytearray)):
            return member(0, args[0])
        if isinstance(o, type):
            raise Unsupported(T)    # iterability of class objects (Enum classes) — not a value container
        return all(member(x, args[0]) for x in (o if not isinstance(o, dict) else o.keys()))
    if org is collections.abc.Mapping:
        return isinstance(o, collections.abc.Mapping) and all(member(k, args[0]) and member(v, args[1]) for k, v in o.items())
    raise Unsupported(T)
