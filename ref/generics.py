"""User-defined generic classes for C04 with a hand-declared base mapping and variance table."""
import itertools

SRC = '''
from typing import Generic, TypeVar, Mapping, Sequence, Iterator, Dict, List
K = TypeVar("K")
V = TypeVar("V")
T = TypeVar("T")
class _M:
    def __init__(self, d=None): self.d = d or {}
    def __getitem__(self, k): return self.d[k]
    def __iter__(self): return iter(self.d)
    def __len__(self): return len(self.d)
class Box(Generic[T]): pass
class Pair(Generic[K, V]): pass
class Flipped(_M, Mapping[K, V], Generic[V, K]): pass
class StrKeyed(_M, Mapping[str, V]): pass
class IntBox(Box[int]): pass
class MyList(List[T]): pass
class Swap(Pair[V, K], Generic[K, V]): pass
class SeqOf(_M, Sequence[T]): pass
class BoxOfList(Box[List[T]]): pass
class _Tag: pass
class Mid3(Mapping[V, K], Generic[K, V], _Tag): pass      # Generic[...] neither first nor last among three bases: it still fixes the parameter order
class Mid3b(_Tag, Pair[V, K], Generic[K, V], Sequence[K]): pass
'''
ATOMS = ["int", "str", "bool"]
ARITY = {"Box": 1, "Pair": 2, "Flipped": 2, "StrKeyed": 1, "IntBox": 0, "MyList": 1, "Swap": 2, "SeqOf": 1, "BoxOfList": 1, "Mid3": 2, "Mid3b": 2, "Mapping": 2, "Sequence": 1, "List": 1, "Dict": 2}
# C04 is about membership: an object of B[bool] is an object of B[int] (bool is int), whatever the declared variance says about mutation.
# So every type argument is compared covariantly; what this sub-space pins down is the ROUTE the arguments take through the declared bases.
VARIANCE = {}


def bases(t):
    n, a = t[0], t[1:]
    if n == "Flipped":      # declared Generic[V, K]: Flipped[v, k] is a Mapping[k, v]
        return [("Mapping", a[1], a[0])]
    if n == "StrKeyed":
        return [("Mapping", ("str",), a[0])]
    if n == "IntBox":
        return [("Box", ("int",))]
    if n == "MyList":
        return [("List", a[0])]
    if n == "Swap":
        return [("Pair", a[1], a[0])]
    if n == "SeqOf":
        return [("Sequence", a[0])]
    if n == "BoxOfList":
        return [("Box", ("List", a[0]))]
    if n == "Mid3":         # declared Generic[K, V] in the middle: Mid3[k, v] is a Mapping[v, k]
        return [("Mapping", a[1], a[0])]
    if n == "Mid3b":        # Mid3b[k, v] is a Pair[v, k] and a Sequence[k]
        return [("Pair", a[1], a[0]), ("Sequence", a[0])]
    if n == "List":
        return [("Sequence", a[0])]
    if n == "Dict":
        return [("Mapping", a[0], a[1])]
    return []


def accepts(A, B):
    """is B assignable to A (terms are tuples: ("int",) or ("Box", ("int",)) ...)"""
    if A == ("object",):
        return True
    if len(A) == 1 and len(B) == 1:
        return A == B or (A[0], B[0]) == ("int", "bool")
    if A[0] == B[0] and len(A) == len(B):
        var = VARIANCE.get(A[0], ("cov",) * (len(A) - 1))
        return all((a == b) if v == "inv" else accepts(a, b) for v, a, b in zip(var, A[1:], B[1:]))
    return any(accepts(A, base) for base in bases(B))


def render(t):
    if len(t) == 1:
        return t[0]
    return "%s[%s]" % (t[0], ", ".join(render(x) for x in t[1:]))


def terms():
    atoms = [(a,) for a in ATOMS]
    out = []
    for n, k in ARITY.items():
        if k == 0:
            out.append((n,))
        else:
            for args in itertools.product(atoms, repeat=k):
                out.append((n,) + args)
    out.append(("Box", ("List", ("int",))))
    out.append(("Box", ("List", ("str",))))
    return out
