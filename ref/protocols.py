"""Protocol / implementing-class vocabulary for C04 with a hand-declared structural conformance relation."""

SRC = '''
from typing import Protocol, Tuple, TypeVar, Generic
T_co = TypeVar("T_co", covariant=True)
class P1(Protocol):
    def m(self) -> int: ...
class P2(Protocol):
    def m(self) -> str: ...
class P12(Protocol):
    def m(self) -> int: ...
    def n(self) -> str: ...
class PA(Protocol):
    x: int
class PR(Protocol):
    def step(self) -> Tuple["PR", int]: ...
class PG(Protocol[T_co]):
    def get(self) -> T_co: ...
class PARG(Protocol):
    def f(self, a: int) -> None: ...
class PM(Protocol):
    def q(self) -> "QM": ...
    def x(self) -> int: ...
class QM(Protocol):
    def p(self) -> "PM": ...
class KMA:
    def q(self) -> "KMB": ...
    def x(self) -> str: ...
class KMB:
    def p(self) -> "KMA": ...
class KMC:
    def q(self) -> "KMD": ...
    def x(self) -> int: ...
class KMD:
    def p(self) -> "KMC": ...
import collections.abc
class PSZ(collections.abc.Sized, Protocol):
    def foo(self) -> int: ...
class PIT(collections.abc.Hashable, Protocol):
    def bar(self) -> str: ...
class KSZ1:
    def foo(self) -> int: return 1
    def __len__(self) -> int: return 0
class KSZ2:
    def foo(self) -> int: return 1
class KIT1:
    def bar(self) -> str: return ""
    def __hash__(self) -> int: return 0
class KIT2:
    def bar(self) -> str: return ""
    __hash__ = None
class K1:
    def m(self) -> int: return 1
class K1b:
    def m(self) -> bool: return True
class K2:
    def m(self) -> str: return ""
class K12:
    def m(self) -> int: return 1
    def n(self) -> str: return ""
class K21:
    def m(self) -> str: return ""
    def n(self) -> int: return 1
class KA:
    x: int = 1
class KAs:
    x: str = ""
class K0:
    pass
class KR1:
    def step(self) -> Tuple["KR1", int]: return (self, 1)
class KR2:
    def step(self) -> Tuple["KR2", str]: return (self, "")
class KR3:
    def step(self) -> Tuple["K0", int]: return (K0(), 1)
class KG1:
    def get(self) -> int: return 1
class KG2:
    def get(self) -> str: return ""
class KARG1:
    def f(self, a: int) -> None: pass
class KARG2:
    def f(self, a: str) -> None: pass
class KARG3:
    def f(self, a: object) -> None: pass
class KARG4:
    def f(self) -> None: pass
'''

# member name -> ("ret", type) / ("attr", type) / ("arg", param type or None for no parameter)
PROTOCOLS = {
    "P1": {"m": ("ret", "int")}, "P2": {"m": ("ret", "str")}, "P12": {"m": ("ret", "int"), "n": ("ret", "str")}, "PA": {"x": ("attr", "int")},
    "PR": {"step": ("ret", ("tuple", "PR", "int"))}, "PG[int]": {"get": ("ret", "int")}, "PG[str]": {"get": ("ret", "str")}, "PARG": {"f": ("arg", "int")},
    # mutually recursive protocols: PM needs a QM, QM needs a PM
    "PM": {"q": ("ret", "QM"), "x": ("ret", "int")}, "QM": {"p": ("ret", "PM")},
    # protocols that inherit a member from a (non-protocol) ABC of collections.abc
    "PSZ": {"foo": ("ret", "int"), "__len__": ("ret", "int")}, "PIT": {"bar": ("ret", "str"), "__hash__": ("ret", "int")},
}
CLASSES = {
    "K1": {"m": ("ret", "int")}, "K1b": {"m": ("ret", "bool")}, "K2": {"m": ("ret", "str")}, "K12": {"m": ("ret", "int"), "n": ("ret", "str")},
    "K21": {"m": ("ret", "str"), "n": ("ret", "int")}, "KA": {"x": ("attr", "int")}, "KAs": {"x": ("attr", "str")}, "K0": {},
    "KR1": {"step": ("ret", ("tuple", "KR1", "int"))}, "KR2": {"step": ("ret", ("tuple", "KR2", "str"))}, "KR3": {"step": ("ret", ("tuple", "K0", "int"))},
    "KG1": {"get": ("ret", "int")}, "KG2": {"get": ("ret", "str")},
    "KARG1": {"f": ("arg", "int")}, "KARG2": {"f": ("arg", "str")}, "KARG3": {"f": ("arg", "object")}, "KARG4": {"f": ("arg", None)},
    # KMA/KMB fail (x returns str): KMB is not a QM either, because its p() returns a KMA, which is not a PM; KMC/KMD conform
    "KMA": {"q": ("ret", "KMB"), "x": ("ret", "str")}, "KMB": {"p": ("ret", "KMA")}, "KMC": {"q": ("ret", "KMD"), "x": ("ret", "int")}, "KMD": {"p": ("ret", "KMC")},
    "KSZ1": {"foo": ("ret", "int"), "__len__": ("ret", "int")}, "KSZ2": {"foo": ("ret", "int")}, "KIT1": {"bar": ("ret", "str"), "__hash__": ("ret", "int")}, "KIT2": {"bar": ("ret", "str")},
}
SCALAR_SUB = {("bool", "int"), ("int", "object"), ("str", "object"), ("bool", "object")}


def sub(a, b, assume):
    """a is a subtype of b (structurally, coinductively for class/protocol names)."""
    if a == b:
        return True
    if isinstance(a, tuple) and isinstance(b, tuple):
        return len(a) == len(b) and all(sub(x, y, assume) for x, y in zip(a[1:], b[1:]))
    if isinstance(a, tuple) or isinstance(b, tuple):
        return False
    if (a, b) in SCALAR_SUB:
        return True
    if a in CLASSES and b in PROTOCOLS:
        return conforms(a, b, assume)
    return False


def conforms(k, p, assume=frozenset()):
    if (k, p) in assume:
        return True
    assume = assume | {(k, p)}
    for name, (kind, t) in PROTOCOLS[p].items():
        if name not in CLASSES[k]:
            return False
        kkind, kt = CLASSES[k][name]
        if kkind != kind:
            return False
        if kind == "arg":
            if kt is None:
                return False
            if not sub(t, kt, assume):      # contravariant
                return False
        elif not sub(kt, t, assume):
            return False
    return True
