"""Shared nominal vocabulary (prelude) and the generated universe U of runtime objects.

Objects are kept as *source expressions* that evaluate, in the prelude namespace, to
the object; this gives every object a literal form for generated programs."""
import itertools

PRELUDE = '''
import enum, dataclasses, collections.abc
from typing import *
from typing_extensions import NotRequired, Annotated, Literal, TypedDict, Protocol
class A: pass
class B(A): pass
class C: pass
class D(A):
    def __bool__(self): return False
class E(enum.Enum):
    X = 1
    Y = 2
class IE(enum.IntEnum):
    P = 1
NT = NewType("NT", int)
NT2 = NewType("NT2", NT)
class TD(TypedDict):
    a: int
    b: NotRequired[str]
class TDB(TypedDict, total=False):
    b: str
class TDC(TDB):
    pass
class TDD(TDB):
    c: NotRequired[int]
@dataclasses.dataclass(frozen=True)
class DC:
    x: int
class IS(int): pass
class FS(float): pass
class SS(str): pass
'''


def prelude_ns():
    ns = {"__name__": "verif_prelude"}
    exec(PRELUDE, ns)
    return ns


SCALARS = ["None", "True", "False", "0", "1", "2", "-1", "1.5", "0.0", "1j", '""', '"a"', '"b"', 'b""', 'b"a"',
           "E.X", "E.Y", "IE.P", "A()", "B()", "C()", "D()", "DC(1)", "IS(2)", "FS(1.5)", 'SS("a")',
           "int", "str", "bool", "A", "B", "C", "E", "float"]
CORE = ["None", "True", "1", "1.5", '"a"', 'b"a"']


def _tuple_src(items):
    if len(items) == 1:
        return "(%s,)" % items[0]
    return "(%s)" % ", ".join(items)


def universe(tier):
    """List of source expressions, simplest first, without duplicates."""
    out = list(SCALARS)
    maxlen = 2
    for n in range(0, maxlen + 1):
        for t in itertools.product(CORE, repeat=n):
            out.append(_tuple_src(t))
            out.append("[%s]" % ", ".join(t))
            if "1" in t and "True" in t:
                continue   # 1 == True collapse in sets: the literal would not denote what it says
            if n == 0:
                out.append("set()")
                out.append("frozenset()")
            else:
                out.append("{%s}" % ", ".join(t))
                out.append("frozenset({%s})" % ", ".join(t))
    for k, v in itertools.product(['"a"', '"b"', "1"], CORE):
        out.append("{%s: %s}" % (k, v))
    out += ["{}", '{"a": 1, "b": "x"}', '{"a": 1, "b": 2}', '{"a": 1, "c": 2}',
            '(1, "a", 1.5)', "(1, 2, 3)", '("a", "b", "c")', '(1, "a", "b", 1.5)', "[[1]]", '[(1, "a")]', "([1],)", '{"a": [1]}',
            "(E.X,)", "[E.X, E.Y]", "(A(),)", "[B()]", "(IE.P,)", "[FS(1.5)]", "(IS(2), 1)",
            # containers whose members are equal (and hash equal) but of different types: (True,) == (1,), [1.0] == [1]
            # dicts with a non-string key next to the declared ones (not members of any TypedDict), the class of None
            '{"a": 1, 3: 4}', "{3: 4}", "type(None)",
            "[(True,), (1,)]", "[(1,), (True,)]", "((1.5,), (1,), (True,))", '[{"a": 1}, {"a": True}]']
    if tier == "thorough":
        for t in itertools.product(CORE, repeat=3):
            out.append(_tuple_src(t))
        out += ["[[1], []]", "[[]]", "((),)", "((1,), (2,))", '{"a": {"a": 1}}', "[None, 1]", "(None, None)", '[{"a": 1}]', "{(1,)}", "frozenset({(1, 2)})",
                '{"a": (1,)}', "[1, 2, 3]", "{1, 2}", "type", "object", "IE", "DC", "IS", "FS", "(int,)", "[int, str]", "-0.5", "2j", '"abc"', 'b"ab"']
    seen = set()
    res = []
    for s in out:
        if s not in seen:
            seen.add(s)
            res.append(s)
    return res
