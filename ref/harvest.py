"""Harvests the programs of pyanalyze's own test-suite (functions decorated with @assert_passes / @assert_fails) from the
working tree under $VERIF_REPO: a large corpus of realistic programs covering every feature the project tests.
No test is run: the decorated function is found through functools.wraps' __wrapped__, its source through the
project's own _extract_code_from_fn, and the decorator keyword arguments through the closure."""
import glob
import importlib
import os
import sys


def harvest(repo=None):
    """-> list of (name, source, settings or None), deterministic order"""
    repo = repo or os.environ.get("VERIF_REPO", "/repo")
    import pa.run  # noqa: F401  (puts the repo on sys.path, asserts the import location)
    from pyanalyze.test_node_visitor import _extract_code_from_fn
    import textwrap
    out = []
    for fn in sorted(glob.glob(os.path.join(repo, "pyanalyze", "test_*.py"))):
        modname = "pyanalyze." + os.path.basename(fn)[:-3]
        try:
            mod = importlib.import_module(modname)
        except Exception:
            continue
        for cname in sorted(vars(mod)):
            cls = getattr(mod, cname)
            if not isinstance(cls, type) or cls.__module__ != modname:
                continue
            for mname in sorted(vars(cls)):
                m = vars(cls)[mname]
                w = getattr(m, "__wrapped__", None)
                if w is None or not callable(m) or getattr(m, "__closure__", None) is None:
                    continue
                free = dict(zip(m.__code__.co_freevars, [c.cell_contents for c in m.__closure__]))
                if "fn" not in free or "kwargs" not in free:
                    continue
                kwargs = free["kwargs"]
                if set(kwargs) - {"settings"}:
                    continue
                try:
                    src = textwrap.dedent(_extract_code_from_fn(free["fn"]))
                    compile(src, "<harvest>", "exec")
                except Exception:
                    continue
                settings = kwargs.get("settings")
                out.append(("%s.%s.%s" % (modname.split(".")[-1], cname, mname), src, {c.name: v for c, v in settings.items()} if settings else None))
    return out
